#!/usr/bin/env python3
"""Regenerates MANIFEST.json from the table below (kept in one place so it stays valid)."""
import json, os
ROOT = os.path.dirname(os.path.abspath(__file__))
CHECKS = {
 'C01': dict(technique='bounded exhaustive enumeration of automata x words on the real code, judged by a run-search reference model',
             text='All labelled DFAs/NFAs inside the stated bounds (incl. 3 epsilon spellings, 3 delta encodings, epsilon chains) x all words up to L are executed on the real acceptance/closure functions and compared with a (state,position) run-search model. Complete inside the bounds; the algorithms are structural, so small scopes exercise every branch.',
             note='Trusted: the 60-line reference model mc/oracles/fa.py (cross-checked by mc.selftest); bounds as reported in the evidence; NFA delta assumed total (defaultdict or full dict).', ref='4/C01'),
}
NOT_YET = {}
def main():
    props = [json.loads(l) for l in open(os.path.join(ROOT, 'properties.jsonl'))]
    checks = []
    na = []
    for p in props:
        pid = p['id']
        if pid in CHECKS:
            c = CHECKS[pid]
            checks.append({
                'property_id': pid,
                'quick_cmd': './check {} --tier quick'.format(pid),
                'thorough_cmd': './check {} --tier thorough'.format(pid),
                'evidence_file': '/verif/evidence/{}.json'.format(pid),
                'replay_cmd_template': './check --replay {path}',
                'engine': c.get('engine', 'mc-explorer'),
                'level_claimed': {'category': 'model_checking', 'text': c['text'], 'design_ref': 'DESIGN.md section ' + c['ref']},
                'level_note': c['note'],
                'technique': c['technique'],
            })
        else:
            na.append({'property_id': pid, 'reason': NOT_YET.get(pid, 'check not built yet in this commit (bounded exhaustive check is designed in DESIGN.md section 4); not claimed until it runs clean')})
    doc = {
        'version': 1,
        'setup_cmd': '/venv/bin/python -B -m mc.selftest',
        'hooks': {'guard': 'GAMBATOOLS_VERIF', 'enable': 'none needed: instrumentation is an import-time AST transform applied by /verif/mc/instr.py; no hook code exists in /repo', 'baseline_off_cmd': 'cd /repo && /venv/bin/python -m pytest -q -p no:cacheprovider --timeout=900', 'source_commits': [], 'add_only': True},
        'engines': [
            {'name': 'mc-explorer', 'path': '/verif/mc', 'serves_properties': sorted(CHECKS), 'kind_free_text': 'hand-written explicit-state / stateless explorer for the Python implementation: bounded-exhaustive input spaces, set-order scheduler (AST instrumentation), call-history BFS, reference-model oracles'},
        ],
        'checks': checks,
        'notes': 'All checks run the real code from /repo/src of the current working tree (VERIF_REPO overrides the path for scratch worktrees). Exit 0 = held, 1 = VIOLATION line, 2 = machinery fault.',
        'not_applicable': na,
    }
    with open(os.path.join(ROOT, 'MANIFEST.json'), 'w') as f:
        json.dump(doc, f, indent=1)
        f.write('\n')
    import jsonschema
    jsonschema.validate(doc, json.load(open('/root/.vp/MANIFEST.schema.json')))
    print('MANIFEST ok:', len(checks), 'checks,', len(na), 'not claimed')
if __name__ == '__main__':
    main()
