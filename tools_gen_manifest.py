#!/usr/bin/env python3
"""Regenerates MANIFEST.json from the table below (kept in one place so it stays valid)."""
import json, os
ROOT = os.path.dirname(os.path.abspath(__file__))
def _c(technique, text, note, ref):
    return dict(technique=technique, text=text, note=note, ref=ref)

BOUNDED = 'bounded exhaustive enumeration of inputs on the real code vs a reference model'
SCHED = 'stateless deviation-bounded exploration of set-iteration orders (AST-instrumented real code) + bounded exhaustive inputs vs a reference model'
CHECKS = {
 'C01': _c(BOUNDED, 'All labelled DFAs/NFAs inside the stated bounds (3 epsilon spellings, 3 delta encodings, epsilon chains) x all words up to L are executed on the real acceptance/closure functions and compared with a (state,position) run-search model. Complete inside the bounds; the algorithms are structural, so small scopes exercise every branch.',
            'Trusted: mc/oracles/fa.py (cross-checked by mc.selftest); bounds as reported in the evidence; NFA delta assumed total (defaultdict or full dict).', '4/C01'),
 'C02': _c(BOUNDED + ' and enumeration of configurations (closure limits, step budgets)', 'Every object of the six formalisms inside the bounds x every bound n (0 included) x every listed PDA closure limit / TM budget: the enumerator is compared with the acceptance test on all of Sigma^<=n, exactly as the property is worded; generate_language is compared with each specific enumerator; the PDA premise is decided by explicit configuration search.',
            'Trusted: the acceptance tests (judged separately by C01/C05/C07/C09/C11), the PDA configuration oracle for the premise.', '4/C02'),
 'C03': _c(BOUNDED + '; language equality decided exactly by product-state exploration', 'Every labelled NFA in the bounds is determinised by the real code; the result is re-validated by oracle code, compared exactly (all word lengths) with a reference subset construction, checked for reachability and for the meaning of its initial state.',
            'Trusted: mc/oracles/fa.py; naming clause evaluated only for names in the documented set notation.', '4/C03'),
 'C04': _c(SCHED, 'All DFAs up to 4 states (5 for one letter; DFA(4,2) strided in quick, complete in thorough) x three minimisers under CPython order, and all DFAs up to 3 states under every execution with <= d deviations from a canonical global set order. Oracle: exact equivalence, Moore partition, state-count window, input snapshot.',
            'Trusted: fa oracle; schedules are global element orders (DESIGN 3.4); d and caps reported.', '4/C04'),
 'C05': _c(BOUNDED, 'All regular expression trees up to m nodes x all words up to L against Brzozowski derivatives; the simplifier against exact Glushkov equivalence and both size measures.', 'Trusted: mc/oracles/rx.py (derivatives cross-checked against Glushkov automata in the self-test).', '4/C05'),
 'C06': _c(SCHED, 'regexp_to_nfa on all trees up to m nodes vs the Glushkov automaton (exact); dfa_to_regexp on all small DFAs under every state-elimination order reachable with <= d set-order deviations, result compared exactly with the DFA.', 'Trusted: rx and fa oracles; global-order schedules.', '4/C06'),
 'C07': _c(BOUNDED, 'cfg_accepts_word on all two-variable grammars (epsilon, unit, cyclic, useless rules included) x all words up to L vs a least-fixpoint language; every CYK cell of every small CNF grammar x word vs a span fixpoint.', 'Trusted: mc/oracles/cfg.py (two fixpoints cross-checked).', '4/C07'),
 'C08': _c(SCHED, 'cfg_to_chomsky, the five public phases chained and the exercise path cfg_apply_chomsky on all two-variable grammars, a long-rule family and 24..28-variable grammars: validity, CNF / per-phase postconditions, freshness of introduced variables, bounded language equality by least fixpoint, input snapshot; conversion also under set-order deviations.', 'CFG equivalence is undecidable: languages compared on all words up to the stated length. Trusted: cfg oracle.', '4/C08'),
 'C09': _c(BOUNDED + ' and enumeration of the closure limit', 'Every small PDA x word x limit in {1,2,3,5,8,(13,1000)}: soundness against an exact saturation model for every limit; completeness exactly when explicit configuration search shows every closure on the way fits the limit.', 'Trusted: mc/oracles/pda.py (saturation vs explicit search cross-checked in the self-test and at run time).', '4/C09'),
 'C10': _c(BOUNDED, 'Every small PDA (incl. F empty / several accepting states, stack symbols and state names colliding with the markers the constructions introduce) through the three normal forms and PDA->CFG: validity, structural promise, bounded language equality with exact references on both sides, input snapshot.', 'Languages compared on all words up to the stated length. Trusted: pda and cfg oracles.', '4/C10'),
 'C11': _c(BOUNDED + ' and enumeration of step budgets', 'Every TM with <= 2 working states / <= 3 tape symbols x word x budget 0..8: verdict and configuration sequence against a Sipser step function; monotonicity of decided verdicts.', 'Head position after an implicit reject is unspecified and not compared. Trusted: mc/oracles/tm.py.', '4/C11'),
 'C12': _c(BOUNDED + ' (instances x answers) with independent criterion evaluators', 'Every exercise checker is driven with all small instances x (the right answer, every single-edit mutant, all small answers); the real checker runs with stdout captured; OK must imply the criterion (weakest reading of the exercise) evaluated by oracle code; every quoted counterexample word must be a genuine difference with the right polarity and minimal length on its side.', 'Trusted: the criterion evaluators in mc/props/c12.py and the oracles they use; only OK => criterion is demanded.', '4/C12'),
 'C13': _c(BOUNDED + ' through the real generator -> printer -> parser -> checker composition', 'For every reference DFA / NFA / non-degenerate grammar of the spaces the answer is produced by notebooks/make_notebook.apply_command from a temp file exactly as the notebook generator does and handed to the checker call of the template; the verdict must be OK. The 19 shipped with-answers notebooks are executed as additional instances.', 'Instance preconditions (non-degenerate grammar, alphabet without 0/1, non-empty word) are decided by oracle code. PDA/TM/regexp for-language exercises are outside the quantifier.', '4/C13'),
 'C14': _c(BOUNDED + '; language equality decided exactly', 'All pairs of small DFAs through the three products, all small DFAs through complement / reverse / no_prefix / no_extend / remove_unreachable, all partial DFAs through totalisation, each compared exactly with an oracle-built reference construction; finite-language helpers on all 128 languages over {a,b}^<=2 (and all pairs).', 'Trusted: fa oracle.', '4/C14'),
 'C15': _c(SCHED + ' with a loop-iteration budget as termination oracle', 'Every small DFA / NFA (incl. epsilon self-loops, cycles, re-converging paths, 4-state epsilon-heavy family) / PDA x word, and every small CNF grammar x generated word x derivation type: the returned run / derivation is validated step by step against the transition relation / the rules; None for rejected words; a result must arrive within the step budget under CPython order and every <= d set-order deviation.', 'PDA runs are demanded only inside the closure premise (limit 12 in this check). Trusted: validators in mc/props/c15.py, fa/pda/cfg oracles.', '4/C15'),
 'C16': _c(BOUNDED, 'parse(print(x)) is compared field by field with x for every DFA / NFA / PDA / TM of the spaces (printable epsilon / blank, empty alphabets, empty F); expressions through all three printers with exact language equality and print stability; expressible grammars with == and a field-wise comparison.', 'State names equal to format keywords and epsilon = empty string are not representable in the text formats and outside the space.', '4/C16'),
 'C17': _c(BOUNDED + ' (layouts x single-fault corruptions)', 'Known automata are rendered in every well-formed layout (declaration orders, omissible declarations, transitions before/after/interleaved, grouped labels, comments, tabs/CRLF) and must parse to exactly that automaton; every single-fault corruption of the canonical text (12 fault classes, every position) must raise - for ill-formed labels also after the parsers of the other three kinds have seen the same token in a description of their own (history across parsers); every object a parser returns is re-validated by oracle code.', 'Trusted: the renderer and fault injector in mc/props/c17.py (what counts as well formed is stated in the evidence assumptions).', '4/C17'),
 'C18': _c('explicit-state breadth-first search over call histories of the real functions + bounded exhaustive operand pairs vs reference constructions', 'All operand pairs of the spaces x 5 name schemes x 3 epsilon spellings x default/private identifier generator from the pristine library state, and BFS over all call sequences (depth <= 2 / 3) of union / concatenation / star on pools of NFAs (results join the pool): valid result, exact language vs reference constructions on operand snapshots, fresh new state, operands untouched.', 'Pristine state = module globals, function defaults, class attributes restored from a deep copy taken at import. Trusted: fa oracle.', '4/C18'),
 'C19': _c('explicit-state breadth-first search over call histories + bounded exhaustive argument snapshots + enumeration of hash seeds in fresh processes, of set-order policies of the scheduler and of the logging switch', 'About 80 operations: (a) argument snapshots before/after on every instance of their catalogs, with logging off and on; (b) BFS over call sequences (depth 2 over all operations, 3 over the core) on a pool of 9 objects: pool unchanged and result equal (language / value / verdict) to the same call on equal arguments in a pristine state; (c) a fixed battery in fresh processes under PYTHONHASHSEED 0..2 (0..15 thorough), digests must agree; (e) a prefix of that battery in fresh instrumented processes under 4 (12 thorough) set-order policies - global canonical / reversed order, per-object orders - digests must agree with the plain processes.', 'Generality over set orders rests on layer (e) for the battery and on the scheduler runs of C04/C06/C08/C15/C20 for deviation-bounded exploration; hash seeds and order policies are finite enumerations. Which witness a simulator returns is not compared.', '4/C19'),
 'C20': _c(SCHED + ' with a loop-iteration budget as termination oracle', 'All ordered pairs of small DFAs (second operand renamed or with identical names) x both routines x CPython order + every <= d deviation: answer must equal a synchronous-BFS bijection decider and arrive within the step budget.', 'Trusted: fa.iso (cross-checked against brute-force permutation search); termination = result within 20 000 loop iterations.', '4/C20'),
}
NOT_YET = {}
def main():
    props = [json.loads(l) for l in open(os.path.join(ROOT, 'properties.jsonl'))]
    checks = []
    na = []
    for p in props:
        pid = p['id']
        if pid in CHECKS:
            c = CHECKS[pid]
            checks.append({
                'property_id': pid,
                'quick_cmd': './check {} --tier quick'.format(pid),
                'thorough_cmd': './check {} --tier thorough'.format(pid),
                'evidence_file': '/verif/evidence/{}.json'.format(pid),
                'replay_cmd_template': './check --replay {path}',
                'engine': c.get('engine', 'mc-explorer'),
                'level_claimed': {'category': 'model_checking', 'text': c['text'], 'design_ref': 'DESIGN.md section ' + c['ref']},
                'level_note': c['note'] + ' Presentation dimensions (name schemes, alphabets, dict insertion orders, shared objects, per-object set orders), thin families and scale instances are listed per tier in BOUNDS.md. Layers with a stride walk an arithmetic progression (offset VERIF_SEED) through a space too large to enumerate; a run that contains one writes exhaustive=false in its evidence.',
                'technique': c['technique'],
            })
        else:
            na.append({'property_id': pid, 'reason': NOT_YET.get(pid, 'check not built yet in this commit (bounded exhaustive check is designed in DESIGN.md section 4); not claimed until it runs clean')})
    doc = {
        'version': 1,
        'setup_cmd': '/venv/bin/python -B -m mc.selftest',
        'hooks': {'guard': 'GAMBATOOLS_VERIF', 'enable': 'none needed: instrumentation is an import-time AST transform applied by /verif/mc/instr.py; no hook code exists in /repo', 'baseline_off_cmd': 'cd /repo && /venv/bin/python -m pytest -q -p no:cacheprovider --timeout=900', 'source_commits': [], 'add_only': True},
        'engines': [
            {'name': 'mc-explorer', 'path': '/verif/mc', 'serves_properties': sorted(CHECKS), 'kind_free_text': 'hand-written explicit-state / stateless explorer for the Python implementation: bounded-exhaustive input spaces, set-order scheduler (AST instrumentation), call-history BFS, reference-model oracles'},
        ],
        'checks': checks,
        'notes': 'All checks run the real code from /repo/src of the current working tree (VERIF_REPO overrides the path for scratch worktrees). Exit 0 = held, 1 = VIOLATION line, 2 = machinery fault.',
        'not_applicable': na,
    }
    with open(os.path.join(ROOT, 'MANIFEST.json'), 'w') as f:
        json.dump(doc, f, indent=1)
        f.write('\n')
    import jsonschema
    jsonschema.validate(doc, json.load(open('/root/.vp/MANIFEST.schema.json')))
    print('MANIFEST ok:', len(checks), 'checks,', len(na), 'not claimed')
if __name__ == '__main__':
    main()
