"""Binding to the code under test: gambatools is always imported from <repo>/src of the working tree."""
import importlib.util
import os
import sys

REPO = os.environ.get('VERIF_REPO', '/repo')
SRC = os.path.join(REPO, 'src')
MODE = None


def setup(mode='plain'):
    """mode: 'plain' (ordinary import) or 'instr' (AST instrumentation, DESIGN 3.4). One mode per process."""
    global MODE
    if MODE is not None:
        if MODE != mode:
            raise RuntimeError('process already bound to mode ' + MODE)
        return
    sys.dont_write_bytecode = True
    if SRC in sys.path:
        sys.path.remove(SRC)
    sys.path.insert(0, SRC)
    if mode == 'instr':
        from mc import instr
        instr.install(SRC)
    import gambatools
    got = os.path.realpath(os.path.dirname(gambatools.__file__))
    want = os.path.realpath(os.path.join(SRC, 'gambatools'))
    if got != want:
        raise RuntimeError('gambatools imported from {} instead of {}'.format(got, want))
    MODE = mode


_MN = None


def make_notebook():
    """notebooks/make_notebook.py imported by path."""
    global _MN
    if _MN is None:
        import warnings
        warnings.filterwarnings('ignore', category=SyntaxWarning)
        fn = os.path.join(REPO, 'notebooks', 'make_notebook.py')
        spec = importlib.util.spec_from_file_location('gv_make_notebook', fn)
        _MN = importlib.util.module_from_spec(spec)
        spec.loader.exec_module(_MN)
    return _MN
