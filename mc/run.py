"""CLI:  check <Cxx> [--tier quick|thorough]   |   check --replay <file>"""
import argparse
import importlib
import json
import os
import sys
import time

from mc import core, evidence, findings, pool

ROOT = os.path.dirname(os.path.dirname(os.path.abspath(__file__)))


def load_driver(pid):
    return importlib.import_module('mc.props.' + pid.lower())


def confirm_timeouts(acc):
    """Wall-clock suspicions are re-run alone with a 60 s limit before they are believed."""
    dropped = 0
    for key in list(acc.viols):
        keep = []
        for rec in acc.viols[key]:
            if not rec.get('needs_confirmation'):
                keep.append(rec)
                continue
            rp = rec.get('repro')
            confirmed = False
            if rp:
                old = core.STALL_TICKS
                core.STALL_TICKS = 30
                try:
                    _i, status, res, _dt = pool.run_one(rp.get('mode', 'plain'), rp['fn'], rp['params'])
                finally:
                    core.STALL_TICKS = old
                if status == 'ok' and any(r.get('needs_confirmation') for lst in res.viols.values() for r in lst):
                    confirmed = True
            if confirmed:
                rec['clause'] = 'does not terminate (wall clock 60 s, confirmed alone)'
                rec.pop('needs_confirmation', None)
                keep.append(rec)
            else:
                dropped += 1
        if keep:
            acc.viols[key] = keep
        else:
            del acc.viols[key]
    # re-key confirmed ones
    out = {}
    for (fn, clause), lst in acc.viols.items():
        for rec in lst:
            out.setdefault((rec['function'], rec['clause']), []).append(rec)
    acc.viols = out
    return dropped


def strided_layers(tasks):
    def has(p):
        if isinstance(p, dict):
            return any((k == 'stride' and isinstance(v, int) and v > 1) or has(v) for k, v in p.items())
        if isinstance(p, (list, tuple)):
            return any(has(x) for x in p)
        return False
    return sum(1 for (_m, _n, params) in tasks if has(params))


def run_check(pid, tier, seed):
    t0 = time.time()
    drv = load_driver(pid)
    spec = drv.plan(tier, seed)
    strided = strided_layers(spec['tasks'])
    if strided:
        # "exhaustive" is claimed only when every layer of the run enumerates its space completely
        spec['exhaustive'] = False
        spec['explanation'] = ('every layer listed WITHOUT a stride in bounds enumerates its space completely; {} task(s) of this run walk an arithmetic progression '
                               '(stride > 1, offset from VERIF_SEED) through a larger space and are complete only for that progression; every case was executed on the real code '
                               'from the working tree and judged by the reference model').format(strided)
    acc = pool.run_tasks(spec['tasks'], deadline=spec.get('deadline', 900 if tier == 'quick' else 6 * 3600))
    if hasattr(drv, 'finish'):
        drv.finish(acc, spec)
    dropped = confirm_timeouts(acc)
    known = findings.load()
    known_lines = []
    new = []
    seen_known = {}
    for (fn, clause), recs in sorted(acc.viols.items()):
        unmatched = []
        for rec in recs:
            f = findings.match(pid, rec, known)
            if f is not None:
                seen_known.setdefault(id(f), (f, 0))
                seen_known[id(f)] = (f, seen_known[id(f)][1] + 1)
            else:
                unmatched.append(rec)
        if unmatched:
            new.append(((fn, clause), unmatched))
    for f, n in seen_known.values():
        known_lines.append('KNOWN-FINDING: property={} {} [{}; {}; {}]'.format(pid, f.get('what', ''), f.get('function'), f.get('clause'), f.get('input_class', 'any')))
    rdir = os.path.join(ROOT, 'evidence', 'replays') if not os.environ.get('VERIF_NOEVIDENCE') else os.path.join('/tmp', 'gv_replays_%d' % os.getpid())
    if new or not os.environ.get('VERIF_NOEVIDENCE'):
        os.makedirs(rdir, exist_ok=True)           # scratch runs (VERIF_NOEVIDENCE) leave nothing behind unless they have something to show
        # stale replays of this property are removed so that a reader never confuses runs
        for fn_ in os.listdir(rdir):
            if fn_.startswith(pid + '-'):
                os.unlink(os.path.join(rdir, fn_))
    vlines = []
    for k, ((fn, clause), recs) in enumerate(new):
        path = os.path.join(rdir, '{}-{}.json'.format(pid, k))
        with open(path, 'w') as f:
            json.dump({'property': pid, 'tier': tier, 'seed': seed, 'function': fn, 'clause': clause, 'records': recs}, f, indent=1, ensure_ascii=False)
        vlines.append('VIOLATION property={} replay={}'.format(pid, path))
        print('  violated: {} :: {} :: e.g. {}'.format(fn, clause, json.dumps(recs[0], ensure_ascii=False)[:600]))
    wall = time.time() - t0
    extra = {'distinct_violation_kinds': len(new), 'violating_executions': acc.nviol, 'tasks_abandoned_at_deadline': len(getattr(acc, 'incomplete', []) or []),
             'unconfirmed_timeouts_dropped': dropped,
             'slowest_tasks': [[round(t, 1), n, str(p)[:80]] for t, n, p in getattr(acc, 'timings', [])]}
    if not os.environ.get('VERIF_NOEVIDENCE'):
        path = evidence.write(pid, tier, seed, acc, spec, wall, known_lines, len(new), extra)
    print('{} {} seed={}: states={} transitions={} evaluations={} nontrivial={} validated={} violations={} wall={:.1f}s'.format(
        pid, tier, seed, acc.states, acc.transitions, acc.evals, acc.nontrivial, acc.validated, len(new), wall))
    cs = ', '.join('{}={}'.format(k, acc.c[k]) for k in sorted(acc.c))
    if cs:
        print('  counters: ' + cs[:1500])
    if os.environ.get('VERIF_TIMINGS'):
        for t, n, p in getattr(acc, 'timings', []):
            print('  slow task: {:.1f}s {} {}'.format(t, n, str(p)[:200]))
    for line in known_lines:
        print(line)
    for line in vlines:
        print(line)
    if getattr(acc, 'incomplete', None):
        print('INCOMPLETE: the deadline passed with {} task(s) unfinished, e.g. {}'.format(len(acc.incomplete), acc.incomplete[0]))
        if not new:
            print('MACHINERY FAULT: run abandoned at the deadline without a verdict')
            return 2
    return 1 if new else 0


def replay(path):
    with open(path) as f:
        doc = json.load(f)
    pid = doc['property']
    rc = 0
    for rec in doc['records'][:3]:
        rp = rec.get('repro')
        if not rp:
            print('record has no repro information:', json.dumps(rec)[:300])
            continue
        obs = []
        for attempt in (1, 2):
            _i, status, res, dt = pool.run_one(rp.get('mode', 'plain'), rp['fn'], rp['params'])
            if status != 'ok':
                print('replay crashed:\n', res)
                return 2
            o = sorted((k[0], k[1], json.dumps(v[0].get('observed', v[0].get('error', '')), ensure_ascii=False)) for k, v in res.viols.items())
            obs.append(o)
            print('replay #{} of {} {}: {} violation kind(s)'.format(attempt, pid, json.dumps(rp['params'], ensure_ascii=False)[:300], len(o)))
            for x in o:
                print('   ', x)
        if obs[0] != obs[1]:
            print('DIVERGENCE between two replays of the same instance: machinery fault')
            return 2
        if obs[0]:
            rc = 1
    if rc:
        print('VIOLATION property={} replay={}'.format(pid, path))
    return rc


def main(argv=None):
    ap = argparse.ArgumentParser()
    ap.add_argument('property', nargs='?')
    ap.add_argument('--tier', default=os.environ.get('VERIF_TIER', 'quick'), choices=['quick', 'thorough'])
    ap.add_argument('--replay')
    args = ap.parse_args(argv)
    seed = int(os.environ.get('VERIF_SEED', '0') or 0)
    try:
        if args.replay:
            return replay(args.replay)
        if not args.property:
            ap.error('property id required')
        return run_check(args.property.upper(), args.tier, seed)
    except core.MachineryError as e:
        print('MACHINERY FAULT: {}'.format(e))
        return 2


if __name__ == '__main__':
    sys.exit(main())
