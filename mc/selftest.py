"""Oracle self-tests (DESIGN 3.3): every reference model is compared with a second, differently built one.
Run by MANIFEST.setup_cmd; exit 2 on any disagreement."""
import sys
import time


def test_fa():
    from mc import spaces
    from mc.oracles import fa
    n = 0
    for idx, spec in spaces.nfas(2, 2, 3):
        Q, Sg, T, q0, F = spaces.nfa_parts(spec)
        A = fa.from_parts(Q, Sg, T, q0, F, '')
        D = fa.determinise(A)
        for w in spaces.words(Sg, 3):
            a = fa.accepts(A, w)
            b = fa.accepts_subset(A, w)
            i = 0
            for ch in w:
                i = D.trans[i][ch]
            c = i in D.finals
            assert a == b == c, (spec, w, a, b, c)
            n += 1
    # equivalence / nerode against brute force on DFA(3,1), DFA(2,2)
    for (nn, k) in ((2, 2), (3, 1)):
        for idx, spec in spaces.dfas(nn, k):
            Q, Sg, delta, q0, F = spaces.dfa_parts(spec)
            A = fa.from_dfa_parts(Q, Sg, delta, q0, F)
            cls = fa.nerode(A)
            dist = fa.distinguishable_pairwise(A, nn)
            for p in Q:
                for q in Q:
                    assert (cls[p] != cls[q]) == dist[p, q], (spec, p, q)
            n += 1
    # equivalent() vs bounded language comparison, iso vs brute-force permutation search
    import itertools
    specs = [s for _, s in spaces.dfas(2, 1)] + [s for i, s in spaces.dfas(2, 2) if i % 7 == 0]
    for s1 in specs:
        for s2 in specs:
            if s1[2] != s2[2]:
                continue
            A = fa.from_dfa_parts(*spaces.dfa_parts(s1))
            B = fa.from_dfa_parts(*spaces.dfa_parts(s2, 'r'))
            w = fa.equivalent(A, B)
            la = fa.language(A, 4)
            lb = fa.language(B, 4)
            assert (w is None) == (la == lb), (s1, s2, w)
            if w is not None:
                assert (w in la) != (w in lb) and all(len(x) >= len(w) for x in la ^ lb), (s1, s2, w)
            # brute-force isomorphism of reachable parts
            ra = sorted(fa.reachable(A)); rb = sorted(fa.reachable(B))
            found = False
            if len(ra) == len(rb):
                for perm in itertools.permutations(rb):
                    m = dict(zip(ra, perm))
                    if m[A.q0] != B.q0:
                        continue
                    if all((p in A.F) == (m[p] in B.F) for p in ra) and all(m[fa.dfa_step(A, p, a)] == fa.dfa_step(B, m[p], a) for p in ra for a in A.Sigma):
                        found = True
                        break
            assert fa.iso(A, B) == found, (s1, s2)
            n += 1
    return n


def test_rx():
    from mc import spaces
    from mc.oracles import fa, rx
    n = 0
    ws = list(spaces.words(['a', 'b'], 4))
    for idx, r in rx.trees_up_to(5):
        G = rx.glushkov(r)
        for w in ws:
            assert rx.matches(r, w) == fa.accepts(G, w), (r, w)
            n += 1
    return n


def test_cfg():
    from mc import spaces
    from mc.oracles import cfg
    n = 0
    ws = list(spaces.words(['a', 'b'], 3))
    for idx, g in cfg.cfg2():
        if idx % 40:
            continue
        lang, _ = cfg.language(g, 3)
        for w in ws:
            assert (w in lang) == cfg.derives(g, 'S', w), (g, w)
            n += 1
    return n


def test_pda():
    from mc.oracles import pda
    n = 0
    for idx, spec in pda.pdas(2, 1, 1, 2):
        P = pda.ref(spec)
        for w in ('', 'a', 'aa', 'aaa'):
            s = pda.accepts(P, w)
            v, complete, mx, _ = pda.run_sets(P, w, 300)
            if complete:
                assert s == v, (spec, w, s, v)
                n += 1
    return n


TESTS = [('fa', test_fa), ('rx', test_rx), ('cfg', test_cfg), ('pda', test_pda)]


def main():
    from mc import load  # noqa  (oracles never import gambatools; nothing to bind)
    t0 = time.time()
    for name, f in TESTS:
        try:
            n = f()
        except AssertionError as e:
            print('ORACLE SELF-TEST FAILED [{}]: {}'.format(name, e))
            return 2
        print('selftest {}: {} comparisons ok'.format(name, n))
    print('selftest done in {:.1f}s'.format(time.time() - t0))
    return 0


if __name__ == '__main__':
    sys.exit(main())
