"""Bounded-exhaustive generators with stable indexing (DESIGN 3.2).
Specs are plain tuples (JSON-able); builders turn them into library objects inside the worker."""
import itertools
from collections import defaultdict

LETTERS = ['a', 'b', 'c']
NAME_SCHEMES = {
    's6': lambda i: 's%d' % i,
    's': lambda i: 's%d' % i,
    'q': lambda i: 'q%d' % i,
    'r': lambda i: 'r%d' % i,
    'x': lambda i: ['start', 'accept', 'trap1', 'P1', 'M1', 'q_accept', 'q_initial'][i],
    'p': lambda i: ['q_accept', 'q_initial', 'M1', 'q_accept1'][i],
    't': lambda i: ['q1', 'q10', 'q', 'q100', 'q11', 'q101'][i],
    'd': lambda i: ['1', '10', '100', '0', '11', '101'][i],
    'f': lambda i: ['q9', 'q10', 'trap9', 'trap10', 'q1', 'trap1'][i],    # numbered names around a decimal carry (fresh-name generators)          # digit names: a name + a digit letter is another name   # names that are substrings of each other
    'k': lambda i: ['accept', 'reject', 'blank', 'tape_symbols', 'stack_symbols'][i],   # keywords of OTHER formats: legal NFA/PDA state names
    'z': lambda i: ['r', 'a', 'b', 'f', 'c', 'd'][i],   # single letters (C15 back-pointer order)
    'u': lambda i: ['q₀', 'q₁', 'p¹', '①', 'qγ', 'Ω', 'q₂', 'p²', '②', 'q₁₀', 'Ωγ', 'q₃'][i],   # word-character names with non-decimal digit characters / outside latin-1
    'g': lambda i: ['start', 'start2', 'accept', 'accept2', 'start1', 'accept1'][i],   # names the library itself generates as fresh (prefix + count)
    'K': lambda i: ['Final', 'Initial', 'States', 'Epsilon', 'Blank', 'Accept'][i],    # keywords in another letter case
    'b': lambda i: ['{}', '{q0}', '{q0,q1}', '(s0,r0)', '{q1}', '(s0,r1)'][i],         # names the library's own constructions produce (sets, pairs)
    'G': lambda i: ['M2', 'M3', 'q_accept2', 'q_drain2', 'q_initial2', 'M5'][i],       # wave 7: generated prefixes with a GAP below them (M1, q_accept1 are free): "first free index, then count on" hands out M2
    'H': lambda i: ['trap2', 'q2', 'trap3', 'q3', 'P2', 'start2'][i],                  # the same for the DFA / NFA constructions (trap1, q1, P1 free)
    'n': lambda i: ['\u212a', '\u2126', 'q\u212b', 'K', '\u03a9', 'q\u00c5'][i],      # code points that change under unicode normalisation (KELVIN SIGN vs K, OHM SIGN vs Omega)
}

# Presentation knobs (set by mc.props.common:t_knobs around a whole task).  They change HOW an instance is handed
# to the library, never WHICH instance: 'dorder' = insertion order of the transition dict ('qa' state-major,
# 'aq' letter-major so that the keys of one state are not adjacent, 'rev' reversed); 'shared' = equal target sets
# of an NFA are one shared set object.
KNOBS = {'dorder': None, 'shared': False, 'intern': False}      # dorder None: the builder's default (state-major for DFA/NFA)


def names(scheme, n, offset=0):
    f = NAME_SCHEMES[scheme]
    return [f(i + offset) for i in range(n)]


def words(sigma, L):
    for n in range(L + 1):
        for w in itertools.product(sigma, repeat=n):
            yield ''.join(w)


def shard(it, i, n):
    """Every n-th element of an enumeration of (idx, spec) pairs."""
    for idx, spec in it:
        if idx % n == i:
            yield idx, spec


def shard_blocks(it, i, n, block):
    """Sharding by blocks of `block` consecutive instances: the variants of one transition structure (all q0, all F)
    stay in one worker and are executed back to back."""
    for idx, spec in it:
        if (idx // block) % n == i:
            yield idx, spec


# ---------------------------------------------------------------- DFA(n,k)
def dfa_size(n, k):
    return n ** (n * k) * n * 2 ** n


def dfa_spec(n, k, idx):
    fb = idx % (2 ** n)
    idx //= 2 ** n
    q0 = idx % n
    idx //= n
    d = []
    for _ in range(n * k):
        d.append(idx % n)
        idx //= n
    return ('dfa', n, k, tuple(d), q0, fb)


def dfas(n, k, start=0, step=1):
    for idx in range(start, dfa_size(n, k), step):
        yield idx, dfa_spec(n, k, idx)


ALPHABETS = {'ab': ['a', 'b', 'c'], '01': ['0', '1', '2'],
             'w': ['a', 'b', 'c', 'd', 'e', 'f', 'g'],   # wide: CPython orders a 5-7 element set and its copy differently
             'gr': ['γ', 'δ', 'λ'],                       # letters outside latin-1 (not cached single-character objects)
             'eps': ['e', 'p', 's'],                      # words over it spell tokens ('eps')
             'nf': ['\u2126', '\u212a', 'K']}               # symbols that change under unicode normalisation


def dorder(items, keyf):
    """items: list of (key, value) in state-major order; keyf(key) -> (state index, letter index)."""
    o = KNOBS['dorder']
    if o == 'aq':
        return sorted(items, key=lambda kv: (keyf(kv[0])[1], keyf(kv[0])[0]))
    if o == 'rev':
        return list(reversed(items))
    return items


def dfa_parts(spec, scheme='s', letters='ab'):
    _, n, k, d, q0, fb = spec
    Q = names(scheme, n)
    Sg = ALPHABETS[letters][:k]
    delta = {}
    i = 0
    for q in Q:
        for a in Sg:
            delta[q, a] = Q[d[i]]
            i += 1
    F = [Q[j] for j in range(n) if fb >> j & 1]
    return Q, Sg, delta, Q[q0], F


def fresh(x):
    """An equal but distinct str object (parsers produce such strings; code must compare names with ==, not `is`).
    One-character latin-1 strings are shared objects in CPython and stay so."""
    if KNOBS.get('intern'):
        return x                 # presentation knob: equal names are ONE shared object
    return (x + ' ')[:-1] if x else x


def build_dfa(spec, scheme='s', letters='ab'):
    from gambatools.dfa import DFA
    Q, Sg, delta, q0, F = dfa_parts(spec, scheme, letters)
    items = dorder(list(delta.items()), lambda k: (Q.index(k[0]), Sg.index(k[1])))
    return DFA(set(fresh(q) for q in Q), set(fresh(a) for a in Sg), {(fresh(p), fresh(a)): fresh(q) for (p, a), q in items}, fresh(q0), set(fresh(q) for q in F))


# ---------------------------------------------------------------- NFA(n,k,t)
def nfa_universe(n, k):
    return [(p, x, q) for p in range(n) for x in range(k + 1) for q in range(n)]   # x == k is epsilon


def nfas(n, k, t, q0s=None, fbits=None, tmin=0):
    """All NFAs with n states, k letters, between tmin and t transitions (t=None: all subsets)."""
    U = nfa_universe(n, k)
    t = len(U) if t is None else t
    q0s = range(n) if q0s is None else q0s
    fbits = range(2 ** n) if fbits is None else fbits
    idx = 0
    for m in range(tmin, t + 1):
        for tr in itertools.combinations(U, m):
            for q0 in q0s:
                for fb in fbits:
                    yield idx, ('nfa', n, k, tr, q0, fb)
                    idx += 1


def nfa_chains(n):
    """epsilon-chain family: s0 -e-> s1 ... -e-> s(n-1), at most one extra epsilon edge, one letter edge, |F| = 1."""
    k = 1
    chain = tuple((i, k, i + 1) for i in range(n - 1))
    idx = 0
    extras = [None] + [(p, k, q) for p in range(n) for q in range(n) if (p, k, q) not in chain]
    for ex in extras:
        for lp in range(n):
            for lq in range(n):
                for f in range(n):
                    tr = chain + ((ex,) if ex else ()) + ((lp, 0, lq),)
                    yield idx, ('nfa', n, k, tuple(sorted(tr)), 0, 1 << f)
                    idx += 1


def nfa_rotations(n):
    """Thin deep family: a-edges form a cycle over n states, the initial state has epsilon edges to a subset S;
    the subsets of the determinisation are the n rotations of closure(S) - many distinct large subsets."""
    k = 1
    cyc = tuple((i, 0, (i + 1) % n) for i in range(n))
    idx = 0
    for bits in range(2 ** (n - 1)):
        S = [i + 1 for i in range(n - 1) if bits >> i & 1]
        if len(S) < n - 3:
            continue
        eps = tuple((0, k, q) for q in S)
        for f in range(n):
            yield idx, ('nfa', n, k, tuple(sorted(cyc + eps)), 0, 1 << f)
            idx += 1


def nfa_parts(spec, scheme='s', eps='', letters='ab'):
    _, n, k, tr, q0, fb = spec
    Q = names(scheme, n)
    Sg = ALPHABETS[letters][:k]
    T = [(Q[p], (Sg[x] if x < k else eps), Q[q]) for (p, x, q) in tr]
    F = [Q[j] for j in range(n) if fb >> j & 1]
    return Q, Sg, T, Q[q0], F


def build_nfa(spec, scheme='s', eps='', enc='sparse', letters='ab'):
    """enc: 'sparse' defaultdict(set) with non-empty entries only; 'empties' the same plus explicit empty
    entries; 'total' a plain dict defined on all of Q x (Sigma + eps)."""
    from gambatools.nfa import NFA
    Q, Sg, T, q0, F = nfa_parts(spec, scheme, eps, letters)
    if enc == 'total':
        delta = {(q, a): set() for q in Q for a in Sg + [eps]}
    else:
        delta = defaultdict(set)
        if enc == 'empties':
            for q in Q:
                for a in Sg + [eps]:
                    delta[q, a] = set()
    order = Sg + [eps]
    for ((p, a), q) in dorder([((p, a), q) for (p, a, q) in T], lambda k: (Q.index(k[0]), order.index(k[1]))):
        delta[p, a].add(fresh(q))
    if KNOBS['shared']:
        pool = {}
        for k in list(delta):
            delta[k] = pool.setdefault(frozenset(delta[k]), delta[k])
    return NFA(set(fresh(q) for q in Q), set(Sg), delta, fresh(q0), set(fresh(q) for q in F), eps)


# ---------------------------------------------------------------- one live object rewritten in place
# A second way of presenting the same instances: ONE object per kind whose public fields are cleared and refilled
# for every instance.  An implementation that remembers anything per object (an attribute on the object, a table
# keyed by identity) answers for the previous automaton.
_LIVE = {}


def morph_dfa(spec, scheme='s'):
    from gambatools.dfa import DFA
    Q, Sg, delta, q0, F = dfa_parts(spec, scheme)
    D = _LIVE.get('dfa')
    if D is None:
        D = _LIVE['dfa'] = DFA(set(Q), set(Sg), dict(delta), q0, set(F))
        return D
    D.Q.clear(); D.Q.update(Q)
    D.Sigma.clear(); D.Sigma.update(Sg)
    D.delta.clear(); D.delta.update(delta)
    D.q0 = q0
    D.F.clear(); D.F.update(F)
    return D


def morph_nfa(spec, scheme='s', eps='', enc='sparse'):
    """One live NFA rewritten in place.  Two styles: (every third rewrite) the dict is cleared and refilled
    with new set objects; (the other rewrites) entries that exist before and after keep their set OBJECT, whose content is
    changed in place - a remembered shallow copy of delta then still looks equal to the current delta."""
    Q, Sg, T, q0, F = nfa_parts(spec, scheme, eps)
    key = ('nfa', enc)
    N = _LIVE.get(key)
    if N is None:
        N = _LIVE[key] = build_nfa(spec, scheme, eps, enc)
        _LIVE[key + ('n',)] = 0
        return N
    _LIVE[key + ('n',)] = _LIVE.get(key + ('n',), 0) + 1
    want = {}
    if enc == 'total':
        for q in Q:
            for a in Sg + [eps]:
                want[q, a] = set()
    for (p, a, q) in T:
        want.setdefault((p, a), set()).add(q)
    N.Q.clear(); N.Q.update(Q)
    N.Sigma.clear(); N.Sigma.update(Sg)
    if _LIVE[key + ('n',)] % 3 == 0:
        N.delta.clear()
        for k, v in want.items():
            N.delta[k] = v
    else:
        for k in list(N.delta):
            if k not in want:
                del N.delta[k]
        for k, v in want.items():
            if k in N.delta and type(N.delta[k]) is set:
                N.delta[k].clear()
                N.delta[k].update(v)
            else:
                N.delta[k] = v
    N.q0 = q0
    N.F.clear(); N.F.update(F)
    N.epsilon = eps
    return N


def star13_family(n=13):
    """Thin family (wave 6): n states, two letters; the initial state 0 goes on the first letter to the pair {i, j} and
    on the second letter to the single state k, which is accepting; every other state is a dead end.  For n >= 13 the
    subsets {1, 2} and {12} (and their like) print alike when state NUMBERS are concatenated without a separator."""
    idx = 0
    for i in range(1, n):
        for j in range(i + 1, n):
            for k in range(1, n):
                if k in (i, j):
                    continue
                yield idx, ('nfa', n, 2, ((0, 0, i), (0, 0, j), (0, 1, k)), 0, 1 << k)
                idx += 1


def heap_pairs(n=12, k=2):
    """Thin family (wave 6) for pair checks: the 'heap' DFA on n states over k letters (state i goes to k*i+1 .. k*i+k
    modulo n: breadth-first numbering from state 0 is the identity), accepting state n-2, against every DFA obtained by
    redirecting ONE row to another tuple of targets.  Rows such as (1, 10) and (11, 0) read alike when written without
    a separator."""
    base = [(k * i + 1 + c) % n for i in range(n) for c in range(k)]
    fb = 1 << (n - 2)
    A = ('dfa', n, k, tuple(base), 0, fb)
    idx = 0
    yield idx, (A, A)
    for row in range(n):
        for tgt in itertools.product(range(n), repeat=k):
            d = list(base)
            d[row * k:(row + 1) * k] = tgt
            if d == base:
                continue
            idx += 1
            yield idx, (A, ('dfa', n, k, tuple(d), 0, fb))


def anchored_swap_family(anchors=10):
    """Thin family with MANY Nerode classes (wave 5): 4 letters, one accepting sink (state 0), `anchors` anchor states
    with pairwise different one-step behaviour (anchor i goes to the sink on its own subset of the letters and to the next
    anchor otherwise), and two states v, w whose successors X, Y under two chosen letters are swapped (v is initial; on
    the other letters v and w go to each other).  All states are reachable and pairwise distinguishable, so a minimiser
    must return anchors + 3 states; a refinement that confuses class numbers >= 10 (two-digit keys) merges v and w.
    All ordered letter pairs x all ordered pairs (X, Y) of non-sink states."""
    k = 4
    subsets = [S for r in (1, 2, 3) for S in itertools.combinations(range(k), r)][:anchors]
    A = list(range(1, anchors + 1))
    v, w = anchors + 1, anchors + 2
    n = anchors + 3
    idx = 0
    for (la, lb) in itertools.permutations(range(k), 2):
        for (X, Y) in itertools.permutations(A + [v, w], 2):
            if {X, Y} == {v, w}:
                continue
            d = [0] * (n * k)
            for i, S in enumerate(subsets):
                for c in range(k):
                    d[A[i] * k + c] = 0 if c in S else A[(i + 1) % anchors]
            for c in range(k):
                d[v * k + c] = w
                d[w * k + c] = v
            d[v * k + la], d[v * k + lb] = X, Y
            d[w * k + la], d[w * k + lb] = Y, X
            yield idx, ('dfa', n, k, tuple(d), v, 1)
            idx += 1
