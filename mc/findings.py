"""known_findings.json matching (DESIGN 3.9).  The file is read-only at run time."""
import json
import os

ROOT = os.path.dirname(os.path.dirname(os.path.abspath(__file__)))
PATH = os.path.join(ROOT, 'known_findings.json')

# decidable predicates on a violation record, referenced by name from known_findings.json
INPUT_CLASSES = {
    'any': lambda rec: True,
}


def input_class(name):
    def deco(f):
        INPUT_CLASSES[name] = f
        return f
    return deco


def load():
    if not os.path.exists(PATH):
        return []
    with open(PATH) as f:
        return json.load(f).get('findings', [])


def match(pid, rec, findings):
    """Returns the open finding that lists this violation, or None."""
    for f in findings:
        if f.get('status') != 'open' or f.get('property') != pid:
            continue
        if f.get('function') != rec.get('function'):
            continue
        if f.get('clause') != rec.get('clause'):
            continue
        pred = INPUT_CLASSES.get(f.get('input_class', 'any'))
        if pred is None:
            continue
        try:
            if pred(rec):
                return f
        except Exception:
            continue
    return None
