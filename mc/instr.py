"""Import-time instrumentation of gambatools (DESIGN 3.4): every iteration over a set, every
no-argument set.pop() and every loop body is routed through the scheduler below.  Nothing in
/repo is changed; the AST of each hand-written module is rewritten in memory when it is imported.
"""
import ast
import hashlib
import importlib.abc
import importlib.util
import os
import re
import sys

# callees whose result depends on the order in which a set argument is iterated
ITER_FUNCS = {'list', 'tuple', 'iter', 'enumerate', 'zip', 'map', 'filter', 'sorted', 'min', 'max', 'reversed'}
SKIP = re.compile(r'(Lexer|Parser|Visitor)$|^draw_sigma$')


class StepBudgetExceeded(BaseException):
    """Loop-iteration budget exhausted (BaseException: 'except Exception' in checkers cannot swallow it)."""


class Transformer(ast.NodeTransformer):
    def __init__(self, modname):
        self.modname = modname
        self.sites = 0

    def site(self, node):
        self.sites += 1
        return ast.Constant('{}:{}'.format(self.modname, getattr(node, 'lineno', 0)))

    def order(self, e):
        return ast.Call(ast.Name('_gv_order', ast.Load()), [e, self.site(e)], [])

    def tick(self, node):
        return ast.Expr(ast.Call(ast.Name('_gv_tick', ast.Load()), [], []))

    def visit_For(self, node):
        self.generic_visit(node)
        node.iter = self.order(node.iter)
        node.body.insert(0, self.tick(node))
        return node

    def visit_While(self, node):
        self.generic_visit(node)
        node.body.insert(0, self.tick(node))
        return node

    def visit_comprehension(self, node):
        self.generic_visit(node)
        node.iter = self.order(node.iter)
        return node

    def visit_Call(self, node):
        self.generic_visit(node)
        f = node.func
        if isinstance(f, ast.Attribute) and f.attr == 'pop' and not node.args and not node.keywords:
            return ast.Call(ast.Name('_gv_pop', ast.Load()), [f.value, self.site(node)], [])
        wrap = False
        if isinstance(f, ast.Name) and f.id in ITER_FUNCS:
            wrap = True
        elif isinstance(f, ast.Attribute):
            if f.attr == 'join':
                wrap = True
            elif isinstance(f.value, ast.Name) and f.value.id == 'itertools':
                wrap = True
            elif f.attr in ('extend', 'from_iterable'):
                wrap = True
        if wrap:
            node.args = [a if isinstance(a, ast.Starred) else self.order(a) for a in node.args]
        return node

    def visit_Starred(self, node):
        self.generic_visit(node)
        if isinstance(node.ctx, ast.Load):
            node.value = self.order(node.value)
        return node


class Sched(object):
    def __init__(self):
        self.native = False     # True: pass sets through untouched (CPython order)
        self.boost = ()         # keys moved to the front, first = highest priority
        self.boostidx = {}
        self.trace = []
        self.ticks = 0
        self.budget = 10 ** 9
        self.record = True
        self.events = 0
        self.reverse = False    # reversed canonical order (a second, very different global order)
        self.objbit = None      # per-object orders: the i-th distinct set object seen in one library call iterates in
        self.objflip = 0        # canonical order if bit `objbit` of i equals objflip, else in reversed order
        self.objs = {}
        self.keep = []

    def newcall(self):
        self.objs = {}
        self.keep = []

    def reset(self, boost=(), budget=10 ** 9, native=False, record=True, reverse=False, objbit=None, objflip=0):
        self.objbit = objbit
        self.objflip = objflip
        self.objs = {}
        self.keep = []
        self.native = native
        self.boost = tuple(boost)
        self.boostidx = {b: i for i, b in enumerate(self.boost)}
        self.trace = []
        self.ticks = 0
        self.budget = budget
        self.record = record
        self.events = 0
        self.reverse = reverse

    def digest(self):
        return hashlib.md5(repr(self.trace).encode()).hexdigest()

    def candidates(self):
        """Elements that occurred in an ordered set of size >= 2 and were not first."""
        seen = set()
        out = []
        for _site, keys in self.trace:
            for k in keys[1:]:
                if k not in seen:
                    seen.add(k)
                    out.append(k)
        return out


S = Sched()


def key(e):
    t = type(e)
    if t is str or isinstance(e, str):
        return (0, str(e))
    if t is tuple:
        return (1, tuple(key(x) for x in e))
    if t is frozenset or t is set:
        return (2, tuple(sorted(key(x) for x in e)))
    if t is int or t is bool:
        return (-1, int(e))
    if e is None:
        return (-2, 0)
    if t is list:
        return (4, tuple(key(x) for x in e))
    return (3, str(e))


def ordered(x, site):
    rev = S.reverse
    if S.objbit is not None:
        n = S.objs.get(id(x))
        if n is None:
            n = S.objs[id(x)] = len(S.keep)
            S.keep.append(x)      # strong reference: no id reuse within one call
        rev = bool(((n >> S.objbit) & 1) ^ S.objflip)
    ks = sorted(((key(e), e) for e in x), key=lambda p: p[0], reverse=rev)
    if S.boostidx:
        n = len(S.boost)
        bi = S.boostidx
        ks.sort(key=lambda p: bi.get(p[0], n))
    if len(ks) > 1:
        S.events += 1
        if S.record:
            S.trace.append((site, tuple(p[0] for p in ks)))
    return [p[1] for p in ks]


def _ordered_iter(x, lst):
    n = len(x)
    for e in lst:
        if len(x) != n:
            raise RuntimeError('Set changed size during iteration')
        yield e
    if len(x) != n:
        raise RuntimeError('Set changed size during iteration')


def _gv_order(x, site):
    t = type(x)
    if (t is set or t is frozenset) and not S.native:
        return _ordered_iter(x, ordered(x, site))
    return x


def _gv_pop(x, site):
    if type(x) is set and not S.native:
        if not x:
            raise KeyError('pop from an empty set')
        e = ordered(x, site)[0]
        x.remove(e)
        return e
    return x.pop()


def _gv_tick():
    S.ticks += 1
    if S.ticks > S.budget:
        raise StepBudgetExceeded()


class Finder(importlib.abc.MetaPathFinder, importlib.abc.Loader):
    def __init__(self, src):
        self.src = src
        self.instrumented = []

    def find_spec(self, name, path, target=None):
        if not name.startswith('gambatools.'):
            return None
        mod = name.split('.', 1)[1]
        if '.' in mod or SKIP.search(mod):
            return None
        fn = os.path.join(self.src, 'gambatools', mod + '.py')
        if not os.path.exists(fn):
            return None
        return importlib.util.spec_from_loader(name, self, origin=fn)

    def create_module(self, spec):
        return None

    def exec_module(self, module):
        fn = module.__spec__.origin
        with open(fn, encoding='utf8') as f:
            tree = ast.parse(f.read(), fn)
        tr = Transformer(module.__name__.split('.', 1)[1])
        tree = tr.visit(tree)
        ast.fix_missing_locations(tree)
        module.__file__ = fn
        module.__dict__.update({'_gv_order': _gv_order, '_gv_pop': _gv_pop, '_gv_tick': _gv_tick})
        self.instrumented.append((module.__name__, tr.sites))
        exec(compile(tree, fn, 'exec'), module.__dict__)


FINDER = None


def install(src):
    global FINDER
    if FINDER is None:
        assert 'gambatools' not in sys.modules or not any(
            m.startswith('gambatools.') for m in sys.modules), 'gambatools imported before instrumentation'
        FINDER = Finder(src)
        sys.meta_path.insert(0, FINDER)
    return FINDER


def explore(execute, depth, cap=20000):
    """Stateless deviation-bounded exploration (DESIGN 3.4).
    execute(boost) runs the instance under boost list `boost` (it must call S.reset itself via
    run_scheduled) and returns nothing; S.trace afterwards gives digest and candidates.
    Returns dict(runs=..., digests=..., completed_depth=..., capped=bool)."""
    runs = 0
    digests = set()
    frontier = [()]
    completed = -1
    capped = False
    for d in range(depth + 1):
        nxt = []
        for b in frontier:
            if runs >= cap:
                capped = True
                break
            execute(b)
            runs += 1
            dig = S.digest()
            if dig in digests:
                continue
            digests.add(dig)
            if d < depth:
                for c in S.candidates():
                    if c not in b:
                        nxt.append(b + (c,))
        if capped:
            break
        completed = d
        frontier = nxt
        if not frontier:
            completed = depth
            break
    return {'runs': runs, 'digests': len(digests), 'completed_depth': completed, 'capped': capped}
