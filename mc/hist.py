"""Histories: explicit-state breadth-first exploration of call sequences over the real functions (DESIGN 3.5).

A state is the event history that reaches it (live objects are not copied: aliasing between results and
operands is the point); it is rebuilt by replaying the history from a pristine library state.  Pristine
state = every mutable module global, function default and class attribute of the hand-written gambatools
modules restored from a deep copy taken right after import ("fresh process" emulation; C19's hash-seed
layer runs real fresh processes)."""
import copy
import sys
import types

_PRISTINE = None
SKIP_MODULES = ('Lexer', 'Parser', 'Visitor', 'draw_sigma')
IMMUTABLE = (int, float, bool, str, bytes, type(None), tuple, frozenset, types.FunctionType, types.BuiltinFunctionType, type, types.ModuleType)


def _mods():
    for name, m in list(sys.modules.items()):
        if name.startswith('gambatools.') and m is not None and not any(s in name for s in SKIP_MODULES):
            yield name, m


def _capture():
    snap = {'globals': [], 'defaults': [], 'classattrs': []}
    for name, m in _mods():
        for k, v in list(vars(m).items()):
            if k.startswith('__') or k.startswith('_gv_'):
                continue
            if isinstance(v, types.FunctionType) and v.__module__ == name:
                if v.__defaults__ and any(not isinstance(d, IMMUTABLE) for d in v.__defaults__):
                    snap['defaults'].append((v, copy.deepcopy(v.__defaults__)))
            elif isinstance(v, type) and v.__module__ == name:
                for ak, av in list(vars(v).items()):
                    if ak.startswith('__'):
                        continue
                    if isinstance(av, (types.FunctionType, staticmethod, classmethod, property)):
                        f = av.__func__ if isinstance(av, (staticmethod, classmethod)) else av
                        if isinstance(f, types.FunctionType) and f.__defaults__ and any(not isinstance(d, IMMUTABLE) for d in f.__defaults__):
                            snap['defaults'].append((f, copy.deepcopy(f.__defaults__)))
                        continue
                    try:
                        snap['classattrs'].append((v, ak, copy.deepcopy(av)))
                    except Exception:
                        pass
            elif isinstance(v, (dict, list, set)) or (not isinstance(v, IMMUTABLE) and type(v).__module__.startswith('gambatools')):
                try:
                    snap['globals'].append((m, k, copy.deepcopy(v)))
                except Exception:
                    pass
    return snap


def pristine():
    """Capture (once, right after import) and restore the hidden state of the library."""
    global _PRISTINE
    if _PRISTINE is None:
        import gambatools.dfa_algorithms, gambatools.nfa_algorithms, gambatools.pda_algorithms, gambatools.tm_algorithms  # noqa
        import gambatools.cfg_algorithms, gambatools.regexp_algorithms, gambatools.language_generator, gambatools.notebook  # noqa
        import gambatools.notebook_dfa, gambatools.notebook_nfa2dfa, gambatools.notebook_cfg, gambatools.notebook_chomsky  # noqa
        import gambatools.notebook_experimental, gambatools.automata_checker, gambatools.global_settings  # noqa
        _PRISTINE = _capture()
    for f, d in _PRISTINE['defaults']:
        f.__defaults__ = copy.deepcopy(d)
    for cls, k, v in _PRISTINE['classattrs']:
        setattr(cls, k, copy.deepcopy(v))
    for m, k, v in _PRISTINE['globals']:
        setattr(m, k, copy.deepcopy(v))
    for f in AFTER_RESTORE:
        f()


AFTER_RESTORE = []      # configuration a driver wants on top of the pristine state (e.g. a smaller PDA closure limit)


def hidden_restore_point():
    """The current hidden state (to be given back to hidden_restore)."""
    if _PRISTINE is None:
        pristine()
    return ([(f, f.__defaults__) for f, _ in _PRISTINE['defaults']],
            [(cls, k, getattr(cls, k, None)) for cls, k, _ in _PRISTINE['classattrs']],
            [(m, k, getattr(m, k, None)) for m, k, _ in _PRISTINE['globals']])


def hidden_restore(saved):
    for f, d in saved[0]:
        f.__defaults__ = d
    for cls, k, v in saved[1]:
        setattr(cls, k, v)
    for m, k, v in saved[2]:
        setattr(m, k, v)


def hidden_state():
    """Canonical digest of the hidden state (part of the explorer's state)."""
    if _PRISTINE is None:
        pristine()
    out = []
    for f, _ in _PRISTINE['defaults']:
        out.append((f.__module__, f.__qualname__, repr([getattr(d, '__dict__', d) for d in f.__defaults__])))
    for cls, k, _ in _PRISTINE['classattrs']:
        out.append((cls.__module__, cls.__name__ + '.' + k, repr(getattr(cls, k, None))))
    for m, k, _ in _PRISTINE['globals']:
        v = getattr(m, k, None)
        out.append((m.__name__, k, repr(getattr(v, '__dict__', v))[:200]))
    return tuple(sorted(out))


def bfs(make_pool, enabled, apply, canon, depth, on_step, max_states=200000, part=0, nparts=1):
    """Explicit-state BFS.  make_pool() -> fresh list of live objects (after pristine());
    enabled(pool) -> list of events; apply(pool, event) -> result object (appended to the pool by bfs);
    canon(pool) -> hashable; on_step(history, event, pool_before_canon, pool, result) records violations
    and returns False to cut the branch.  Returns (states, transitions, max depth completed)."""
    def rebuild(hist):
        pristine()
        pool = make_pool()
        for ev in hist:
            try:
                r = apply(pool, ev)
            except Exception:
                r = ('failed', None)          # an event that raises (also in a fresh state) still may leave hidden state behind
            pool.append(r)
        return pool

    pool0 = rebuild([])
    seen = {(canon(pool0), hidden_state())}
    frontier = [[]]
    transitions = 0
    completed = 0
    for d in range(depth):
        nxt = []
        for hist in frontier:
            pool = rebuild(hist)
            events = enabled(pool)
            if d == 0 and nparts > 1:
                events = [ev for i, ev in enumerate(events) if i % nparts == part]     # partition of the first layer across workers
            for ev in events:
                pool = rebuild(hist)
                before = canon(pool)
                try:
                    r = apply(pool, ev)
                    failed = None
                except BaseException as e:
                    from mc import core, instr
                    if isinstance(e, (core.WallClock, KeyboardInterrupt, SystemExit, instr.StepBudgetExceeded)):
                        raise
                    r, failed = None, e
                transitions += 1
                ok = on_step(hist, ev, before, pool, r, failed)
                if failed is not None and ok == 'expand':
                    r = ('failed', None)
                elif failed is not None or not ok:
                    continue
                pool.append(r)
                try:
                    key = (canon(pool), hidden_state())
                except Exception:
                    continue
                if key not in seen:
                    seen.add(key)
                    if len(seen) > max_states:
                        return len(seen), transitions, completed
                    nxt.append(hist + [ev])
        completed = d + 1
        frontier = nxt
        if not frontier:
            break
    return len(seen), transitions, completed
