"""Shared plumbing for the property drivers: accumulators, guarded library calls, wall-clock guard."""
import collections
import contextlib
import io
import json
import signal
import sys
import traceback

MAX_KEEP = 6          # violations kept per (function, clause)
MAX_SAMPLES = 3


class MachineryError(Exception):
    """A fault of the verification machinery itself (exit 2, never a VIOLATION)."""


class WallClock(BaseException):
    """Raised by the per-task watchdog; BaseException so library 'except Exception' cannot swallow it."""


def jsonable(x):
    if isinstance(x, (str, int, float, bool)) or x is None:
        return x
    if isinstance(x, dict):
        return {str(k): jsonable(v) for k, v in x.items()}
    if isinstance(x, (list, tuple)):
        return [jsonable(v) for v in x]
    if isinstance(x, (set, frozenset)):
        try:
            return sorted(jsonable(v) for v in x)
        except TypeError:
            return sorted((jsonable(v) for v in x), key=repr)
    return repr(x)


class Acc(object):
    """Mergeable result of one worker task."""

    def __init__(self):
        self.evals = 0            # executions of real library code judged by an oracle
        self.nontrivial = 0       # instances on which the property's hypothesis is non-vacuous
        self.states = 0           # distinct instances / canonical states / trace digests
        self.transitions = 0      # executions of real code (incl. schedule / history steps)
        self.validated = 0        # reference-model verdicts compared with the implementation
        self.nviol = 0
        self.viols = {}           # (function, clause) -> [records]
        self.samples = []
        self.c = collections.Counter()
        self.maxes = {}
        self.current = None       # instance being executed (for the watchdog)
        self.data = {}            # free-form per-task payload, merged by dict.update

    def sample(self, s):
        if len(self.samples) < MAX_SAMPLES:
            self.samples.append(jsonable(s))

    def mx(self, key, val):
        if val > self.maxes.get(key, -1):
            self.maxes[key] = val

    def viol(self, function, clause, instance, repro=None, **details):
        self.nviol += 1
        lst = self.viols.setdefault((function, clause), [])
        if len(lst) < MAX_KEEP:
            rec = {'function': function, 'clause': clause, 'instance': jsonable(instance)}
            if repro is not None:
                rec['repro'] = jsonable(repro)
            rec.update({k: jsonable(v) for k, v in details.items()})
            lst.append(rec)

    def merge(self, other):
        self.evals += other.evals
        self.nontrivial += other.nontrivial
        self.states += other.states
        self.transitions += other.transitions
        self.validated += other.validated
        self.nviol += other.nviol
        for k, lst in other.viols.items():
            mine = self.viols.setdefault(k, [])
            for r in lst:
                if len(mine) < MAX_KEEP:
                    mine.append(r)
        for s in other.samples:
            if len(self.samples) < MAX_SAMPLES:
                self.samples.append(s)
        self.c.update(other.c)
        for k, v in other.maxes.items():
            self.mx(k, v)
        self.data.update(other.data)
        return self


# --- per-call hang detection (plain mode) ---------------------------------------------------
# A repeating interval timer looks at a call counter; if a library call has been running for
# STALL_TICKS consecutive ticks, WallClock is raised inside it.  The verdict is only a suspicion:
# the runner re-executes the instance alone with a 60 s limit before it is believed (DESIGN 3.7).
CALLS = 0
NEWCALL = None      # set by common.t_ordered in per-object order mode: restarts the numbering of set objects
IN_LIB = False
_LAST = [-1, 0]
STALL_TICK_S = 2.0
STALL_TICKS = 6


def _stall_handler(signum, frame):
    if IN_LIB and _LAST[0] == CALLS:
        _LAST[1] += 1
        if _LAST[1] >= STALL_TICKS:
            _LAST[1] = 0
            raise WallClock()
    else:
        _LAST[0] = CALLS
        _LAST[1] = 0


def start_stall_timer():
    signal.signal(signal.SIGALRM, _stall_handler)
    signal.setitimer(signal.ITIMER_REAL, STALL_TICK_S, STALL_TICK_S)


def stop_stall_timer():
    signal.setitimer(signal.ITIMER_REAL, 0)


def describe_exc(e):
    tb = traceback.extract_tb(e.__traceback__)
    where = ''
    for fr in reversed(tb):
        if '/gambatools/' in fr.filename or 'make_notebook' in fr.filename:
            where = ' at {}:{} in {}'.format(fr.filename.split('/')[-1], fr.lineno, fr.name)
            break
    return '{}: {}{}'.format(type(e).__name__, str(e)[:200], where)


def lib_call(acc, function, instance, f, *args, repro=None, clause='raises', **kw):
    """Call library code; an exception is a violation attributed to the library.
    Returns (ok, value)."""
    global CALLS, IN_LIB
    CALLS += 1
    if NEWCALL is not None:
        NEWCALL()
    IN_LIB = True
    try:
        v = f(*args, **kw)
        IN_LIB = False
        return True, v
    except WallClock:
        IN_LIB = False
        acc.viol(function, 'does not terminate (wall clock, to be confirmed)', instance, repro=repro, needs_confirmation=True)
        return False, None
    except (KeyboardInterrupt, SystemExit):
        raise
    except BaseException as e:
        IN_LIB = False
        from mc import instr
        if isinstance(e, instr.StepBudgetExceeded):
            raise
        acc.viol(function, clause, instance, repro=repro, error=describe_exc(e))
        return False, None


@contextlib.contextmanager
def inspecting(acc, function, instance, repro=None, clause='malformed result'):
    """Oracle code that inspects a library result: an exception here means the result has the wrong shape."""
    try:
        yield
    except (WallClock, KeyboardInterrupt, SystemExit, MachineryError):
        raise
    except Exception as e:
        acc.viol(function, clause, instance, repro=repro, error=describe_exc(e) + ' | ' + traceback.format_exc(limit=3)[-300:])


@contextlib.contextmanager
def captured_stdout():
    old = sys.stdout
    buf = io.StringIO()
    sys.stdout = buf
    try:
        yield buf
    finally:
        sys.stdout = old


@contextlib.contextmanager
def time_limit(seconds):
    """Hard wall-clock limit for one block (used by replay/confirmation runs)."""
    def handler(signum, frame):
        raise WallClock()
    old = signal.signal(signal.SIGALRM, handler)
    signal.setitimer(signal.ITIMER_REAL, seconds)
    try:
        yield
    finally:
        signal.setitimer(signal.ITIMER_REAL, 0)
        signal.signal(signal.SIGALRM, old)
