"""16-way sharding with a deterministic merge.  One pool per loading mode; the parent never imports gambatools."""
import importlib
import multiprocessing
import os
import time
import traceback

from mc import core

NPROC = int(os.environ.get('VERIF_PROCS', '0')) or min(16, os.cpu_count() or 1)


def _init(mode):
    import sys
    from mc import load
    load.setup(mode)
    sys.stdout = open(os.devnull, 'w')      # the library prints diagnostics; checkers are captured explicitly
    sys.stderr = open(os.devnull, 'w')      # ANTLR error listeners write to stderr; crashes are returned as values


def _resolve(name):
    mod, fn = name.split(':')
    return getattr(importlib.import_module(mod), fn)


def _run(item):
    idx, name, params = item
    f = _resolve(name)
    acc = core.Acc()
    t = time.time()
    try:
        core.start_stall_timer()
        try:
            f(acc, **params)
        finally:
            core.stop_stall_timer()
        return idx, 'ok', acc, time.time() - t
    except BaseException:
        return idx, 'crash', traceback.format_exc(), time.time() - t


def run_tasks(tasks):
    """tasks: list of (mode, 'module:function', params).  Returns merged Acc.  Raises MachineryError on a crash."""
    merged = core.Acc()
    timings = []
    for mode in ('plain', 'instr'):
        items = [(i, name, params) for i, (m, name, params) in enumerate(tasks) if m == mode]
        if not items:
            continue
        ctx = multiprocessing.get_context('fork')
        with ctx.Pool(min(NPROC, len(items)), initializer=_init, initargs=(mode,)) as pool:
            results = list(pool.imap_unordered(_run, items, chunksize=1))
        results.sort(key=lambda r: r[0])
        for idx, status, acc, dt in results:
            timings.append((dt, tasks[idx][1], tasks[idx][2]))
            if status == 'crash':
                raise core.MachineryError('task {} {} crashed:\n{}'.format(tasks[idx][1], tasks[idx][2], acc))
            merged.merge(acc)
    merged.timings = sorted(timings, key=lambda t: -t[0])[:5]
    return merged


def run_one(mode, name, params):
    """Run one task in a fresh single worker (used by --replay)."""
    ctx = multiprocessing.get_context('fork')
    with ctx.Pool(1, initializer=_init, initargs=(mode,)) as pool:
        return pool.apply(_run, ((0, name, params),))
