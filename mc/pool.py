"""16-way sharding with a deterministic merge.  One pool per loading mode; the parent never imports gambatools."""
import importlib
import multiprocessing
import os
import time
import traceback

from mc import core

NPROC = int(os.environ.get('VERIF_PROCS', '0')) or min(16, os.cpu_count() or 1)


def _init(mode):
    import sys
    from mc import load
    load.setup(mode)
    sys.stdout = open(os.devnull, 'w')      # the library prints diagnostics; checkers are captured explicitly
    sys.stderr = open(os.devnull, 'w')      # ANTLR error listeners write to stderr; crashes are returned as values


def _resolve(name):
    mod, fn = name.split(':')
    return getattr(importlib.import_module(mod), fn)


def _run(item):
    idx, name, params = item
    f = _resolve(name)
    acc = core.Acc()
    t = time.time()
    try:
        core.start_stall_timer()
        try:
            f(acc, **params)
        finally:
            core.stop_stall_timer()
        return idx, 'ok', acc, time.time() - t
    except BaseException:
        return idx, 'crash', traceback.format_exc(), time.time() - t


DEADLINE = float(os.environ.get('VERIF_DEADLINE', '0') or 0)


def run_tasks(tasks, deadline=None):
    """tasks: list of (mode, 'module:function', params).  Returns merged Acc.  Raises MachineryError on a crash.
    deadline (seconds of wall clock for all tasks together): when it passes, unfinished tasks are abandoned; what
    finished is merged and merged.incomplete lists the abandoned tasks (a change that makes the library hundreds of
    times slower must not turn a check into an endless run)."""
    deadline = DEADLINE or deadline or 0
    t_start = time.time()
    merged = core.Acc()
    merged.incomplete = []
    timings = []
    for mode in ('plain', 'instr'):
        items = [(i, name, params) for i, (m, name, params) in enumerate(tasks) if m == mode]
        if not items:
            continue
        ctx = multiprocessing.get_context('fork')
        pool = ctx.Pool(min(NPROC, len(items)), initializer=_init, initargs=(mode,))
        try:
            it = pool.imap_unordered(_run, items, chunksize=1)
            results = []
            pending = {i for i, _, _ in items}
            while pending:
                try:
                    left = None if not deadline else max(1.0, deadline - (time.time() - t_start))
                    r = it.next(timeout=left)
                except multiprocessing.TimeoutError:
                    merged.incomplete.extend('{} {}'.format(tasks[i][1], str(tasks[i][2])[:100]) for i in sorted(pending))
                    break
                except StopIteration:
                    break
                results.append(r)
                pending.discard(r[0])
        finally:
            pool.terminate()
            pool.join()
        results.sort(key=lambda r: r[0])
        for idx, status, acc, dt in results:
            timings.append((dt, tasks[idx][1], tasks[idx][2]))
            if status == 'crash':
                raise core.MachineryError('task {} {} crashed:\n{}'.format(tasks[idx][1], tasks[idx][2], acc))
            merged.merge(acc)
        if merged.incomplete:
            break
    merged.timings = sorted(timings, key=lambda t: -t[0])[:8]
    return merged


def run_one(mode, name, params):
    """Run one task in a fresh single worker (used by --replay)."""
    ctx = multiprocessing.get_context('fork')
    with ctx.Pool(1, initializer=_init, initargs=(mode,)) as pool:
        return pool.apply(_run, ((0, name, params),))
