"""Reference model for context-free grammars: least fixpoints, no normal form.
Grammar spec: ('cfg', V tuple, Sigma tuple, rules tuple of (lhs, rhs tuple), S).  A symbol of a right-hand
side is a variable iff it is in V."""
import itertools


class Malformed(Exception):
    pass


def from_lib(G, require_start=True):
    """Library CFG -> spec, validity re-checked by oracle code."""
    from gambatools.cfg import CFG, Variable, Terminal, Rule, Alternative
    if not isinstance(G, CFG):
        raise Malformed('result is {} not a CFG'.format(type(G).__name__))
    V, Sg, R, S = G.V, G.Sigma, G.R, G.S
    if not isinstance(V, (set, frozenset)) or not isinstance(Sg, (set, frozenset)) or not isinstance(R, list):
        raise Malformed('V, Sigma must be sets and R a list')
    if S not in V and require_start:
        raise Malformed('start variable {!r} not in V'.format(S))
    if set(V) & set(Sg):
        raise Malformed('V and Sigma overlap: {}'.format(sorted(set(V) & set(Sg))))
    rules = []
    for r in R:
        if not isinstance(r, Rule) or not isinstance(r.alternative, Alternative):
            raise Malformed('R contains a non-rule {!r}'.format(r))
        if r.variable not in V:
            raise Malformed('rule {} has undeclared left-hand side'.format(r))
        rhs = []
        for x in r.alternative.symbols:
            if isinstance(x, Variable):
                if x not in V:
                    raise Malformed('rule {} uses undeclared variable {}'.format(r, x))
            elif isinstance(x, Terminal):
                if x not in Sg:
                    raise Malformed('rule {} uses undeclared terminal {}'.format(r, x))
                if x in V:
                    raise Malformed('rule {}: terminal object {} is named like a variable'.format(r, x))
            else:
                raise Malformed('rule {} contains a symbol that is neither Variable nor Terminal: {!r}'.format(r, x))
            rhs.append(str(x))
        rules.append((str(r.variable), tuple(rhs)))
    return ('cfg', tuple(sorted(map(str, V))), tuple(sorted(map(str, Sg))), tuple(rules), str(S))


def to_lib(spec, epsilon='ε'):
    from gambatools.cfg import CFG, Variable, Terminal, Rule, Alternative
    _, V, Sg, rules, S = spec
    Vs = set(V)
    R = [Rule(Variable(l), Alternative([Variable(x) if x in Vs else Terminal(x) for x in rhs])) for (l, rhs) in rules]
    return CFG(set(Variable(v) for v in V), set(Terminal(t) for t in Sg), R, Variable(S), Terminal(epsilon))


_LIVE = {}


def morph(spec, epsilon='ε'):
    """One live CFG rewritten in place for every instance (see spaces.morph_nfa)."""
    from gambatools.cfg import Variable, Terminal, Rule, Alternative
    G = _LIVE.get('cfg')
    if G is None:
        G = _LIVE['cfg'] = to_lib(spec, epsilon)
        return G
    _, V, Sg, rules, S = spec
    Vs = set(V)
    G.V.clear(); G.V.update(Variable(v) for v in V)
    G.Sigma.clear(); G.Sigma.update(Terminal(t) for t in Sg)
    del G.R[:]
    G.R.extend(Rule(Variable(l), Alternative([Variable(x) if x in Vs else Terminal(x) for x in rhs])) for (l, rhs) in rules)
    G.S = Variable(S)
    return G


def show(spec):
    _, V, Sg, rules, S = spec
    by = {}
    for l, rhs in rules:
        by.setdefault(l, []).append(''.join(rhs) or 'ε')
    order = [S] + [v for v in by if v != S]
    return '; '.join('{} -> {}'.format(v, ' | '.join(by[v])) for v in order if v in by)


def language(spec, n):
    """{w in Sigma^<=n : S =>* w}: least fixpoint of L_A = U_{A -> X1..Xk} L_X1 ... L_Xk restricted to length <= n."""
    _, V, Sg, rules, S = spec
    Vs = set(V)
    L = {v: set() for v in V}
    L.setdefault(S, set())
    changed = True
    while changed:
        changed = False
        for (l, rhs) in rules:
            cur = {''}
            for x in rhs:
                if x in Vs:
                    part = L[x]
                    cur = {u + v for u in cur for v in part if len(u) + len(v) <= n}
                else:
                    cur = {u + x for u in cur if len(u) + len(x) <= n}
                if not cur:
                    break
            if not cur <= L[l]:
                L[l] |= cur
                changed = True
    return L[S], L


def derives_table(spec, w):
    """D[A] = set of (i,j), 0<=i<=j<=|w|, such that A =>* w[i:j].  Fixpoint over spans; any rule shape."""
    _, V, Sg, rules, S = spec
    Vs = set(V)
    n = len(w)
    D = {v: set() for v in V}
    changed = True
    while changed:
        changed = False
        for (l, rhs) in rules:
            cur = {(i, i) for i in range(n + 1)}
            for x in rhs:
                if x in Vs:
                    nxt = set()
                    for (i, j) in cur:
                        for (a, b) in D[x]:
                            if a == j:
                                nxt.add((i, b))
                    cur = nxt
                else:
                    cur = {(i, j + 1) for (i, j) in cur if j < n and w[j] == x}
                if not cur:
                    break
            if not cur <= D[l]:
                D[l] |= cur
                changed = True
    return D


def derives(spec, A, w):
    return (0, len(w)) in derives_table(spec, w)[A]


def nonempty_word_variables(spec, n=6):
    """Variables that derive at least one non-empty word (decided by the least fixpoint of 'derives a non-empty word')."""
    _, V, Sg, rules, S = spec
    Vs = set(V)
    # productive: derives some terminal word; then non-empty: some rule with a terminal or a non-empty-deriving variable, all symbols productive
    prod = set()
    ch = True
    while ch:
        ch = False
        for l, rhs in rules:
            if l not in prod and all((x not in Vs) or x in prod for x in rhs):
                prod.add(l)
                ch = True
    ne = set()
    ch = True
    while ch:
        ch = False
        for l, rhs in rules:
            if l not in ne and all((x not in Vs) or x in prod for x in rhs) and any((x not in Vs) or x in ne for x in rhs):
                ne.add(l)
                ch = True
    return ne


def is_cnf(spec):
    """Textbook CNF: A -> BC with B, C variables other than the start; A -> a; epsilon only for the start."""
    _, V, Sg, rules, S = spec
    Vs = set(V)
    for (l, rhs) in rules:
        if len(rhs) == 0:
            if l != S:
                return 'epsilon rule for non-start variable {}'.format(l)
        elif len(rhs) == 1:
            if rhs[0] in Vs:
                return 'unit rule {} -> {}'.format(l, rhs[0])
        elif len(rhs) == 2:
            if rhs[0] not in Vs or rhs[1] not in Vs:
                return 'terminal in a binary rule {} -> {}'.format(l, ''.join(rhs))
            if S in rhs:
                return 'start variable on a right-hand side: {} -> {}'.format(l, ''.join(rhs))
        else:
            return 'long rule {} -> {}'.format(l, ''.join(rhs))
    return None


def rename(spec, varmap=None, termmap=None):
    """The same grammar with variables / terminals renamed (multi-character variable names, the character ε as a
    terminal, ...)."""
    varmap = varmap or {}
    termmap = termmap or {}
    _, V, Sg, rules, S = spec
    Vs = set(V)
    def sym(x):
        return varmap.get(x, x) if x in Vs else termmap.get(x, x)
    return ('cfg', tuple(sorted(varmap.get(v, v) for v in V)), tuple(sorted(termmap.get(t, t) for t in Sg)),
            tuple((varmap.get(l, l), tuple(sym(x) for x in rhs)) for l, rhs in rules), varmap.get(S, S))


MULTI = {'A': 'X', 'B': 'XX', 'S': 'XS'}       # names that are concatenations of each other
EPS_TERMINAL = {'b': 'ε'}                       # the character ε used as an ordinary terminal (grammar epsilon is then 'e')


def start_first(spec):
    """The same grammar with the rules of the start variable moved to the front (the simple text format takes the
    left-hand side of the first rule as start variable)."""
    _, V, Sg, rules, S = spec
    return ('cfg', V, Sg, tuple([r for r in rules if r[0] == S] + [r for r in rules if r[0] != S]), S)


def normalise_simple(spec):
    """Is the grammar expressible in the simple text format (every used variable has a rule, start owns the first rule)?"""
    _, V, Sg, rules, S = spec
    if not rules:
        return False
    lhs = {l for l, _ in rules}
    used_vars = {x for _, rhs in rules for x in rhs if x in V}
    return used_vars <= lhs and S in lhs and rules[0][0] == S


# ---------------------------------------------------------------- spaces
def _rhs_menu2():
    syms = ['S', 'A', 'a', 'b']
    out = [()]
    out += [(x,) for x in syms]
    out += [(x, y) for x in syms for y in syms]
    return out


LONG_MENU = [('a', 'S', 'b'), ('A', 'S', 'A'), ('S', 'A', 'a'), ('A', 'A', 'A'), ('a', 'b', 'S'), ('a', 'A', 'b', 'A'),
             ('A', 'b', 'A'), ('S', 'S', 'S'), ('a', 'S', 'b', 'S'), ('A', 'a', 'A', 'a'),
             ('a', 'a', 'b', 'a', 'b'), ('a', 'A', 'b', 'A', 'a'), ('A', 'a', 'A', 'b', 'A', 'a')]


def cfg2(plus=False):
    """53 592 two-variable grammars; with plus=True: S gets one alternative from LONG_MENU in addition (and A optionally one)."""
    menu = _rhs_menu2()
    s_alts = [c for m in (1, 2) for c in itertools.combinations(range(len(menu)), m)]
    a_alts = [c for m in (0, 1, 2) for c in itertools.combinations(range(len(menu)), m)]
    idx = 0
    if not plus:
        for sa in s_alts:
            for aa in a_alts:
                rules = tuple(('S', menu[i]) for i in sa) + tuple(('A', menu[i]) for i in aa)
                yield idx, ('cfg', ('A', 'S'), ('a', 'b'), rules, 'S')
                idx += 1
    else:
        s1 = [c for m in (0, 1) for c in itertools.combinations(range(len(menu)), m)]
        for ls in LONG_MENU:
            for sa in s1:
                for la in [None] + LONG_MENU:
                    for aa in s1:
                        rules = (('S', ls),) + tuple(('S', menu[i]) for i in sa) + ((('A', la),) if la else ()) + tuple(('A', menu[i]) for i in aa)
                        yield idx, ('cfg', ('A', 'S'), ('a', 'b'), rules, 'S')
                        idx += 1


def cfg_big(v):
    """Chain family with v variables (24..28): crosses the 26-variable switch of cfg_fresh_variable."""
    import string
    names = list(string.ascii_uppercase)
    names.remove('S')
    names = ['S'] + names          # 26 single letters
    names += ['A0', 'S0', 'B1', 'T'][:max(0, v - 26)] if v > 26 else []
    names = names[:v]
    rules = []
    # S -> V1 a V2 b | V1 ; Vi -> V(i+1) | a ; last -> b | epsilon ; one long rule in the middle
    rules.append(('S', (names[1], 'a', names[2], 'b')))
    rules.append(('S', (names[1],)))
    for i in range(1, v - 1):
        rules.append((names[i], (names[i + 1],)))
    rules.append((names[v // 2], ('a', names[v - 1], 'b', names[v - 1])))
    rules.append((names[v - 1], ('b',)))
    rules.append((names[v - 1], ()))
    rules.append((names[3], ('a',)))
    return ('cfg', tuple(names), ('a', 'b'), tuple(rules), 'S')


def cfg_big_long(v, m):
    """cfg_big(v) plus one rule with m symbols (m = 12..16): splitting it asks for m - 2 fresh variables with the same
    hint - past a decimal carry in the numbered names used once all 26 letters are taken."""
    _, names, sg, rules, S = cfg_big(v)
    rhs = tuple(('a', 'b', names[v - 1])[i % 3] for i in range(m))
    return ('cfg', names, sg, rules + ((names[4], rhs),), S)


def cfg3_units():
    """Three-variable family for unit-rule cycles: every variable has any subset of unit rules to the other two
    variables and at most one terminal rule; S may have one extra rule a.X.  6 912 grammars (unit cycles of
    length 2 and 3, chains, diamonds)."""
    V = ('S', 'A', 'B')
    others = {v: [w for w in V if w != v] for v in V}
    unit_opts = {v: [(), (others[v][0],), (others[v][1],), tuple(others[v])] for v in V}
    term_opts = [None, 'a', 'b']
    extra_opts = [None, ('a', 'S'), ('a', 'A'), ('a', 'B')]
    idx = 0
    for us in itertools.product(*[unit_opts[v] for v in V]):
        for ts in itertools.product(term_opts, repeat=3):
            for ex in extra_opts:
                rules = []
                for v, u, t in zip(V, us, ts):
                    for w in u:
                        rules.append((v, (w,)))
                    if t:
                        rules.append((v, (t,)))
                    if v == 'S' and ex:
                        rules.append((v, ex))
                if not any(l == 'S' for l, _ in rules):
                    continue
                yield idx, ('cfg', ('A', 'B', 'S'), ('a', 'b'), tuple(rules), 'S')
                idx += 1


def cfg4_units():
    """Four-variable family: a unit cycle S -> A -> B -> S, any subset of the nine other unit rules, terminal rules
    A -> a, B -> b, C -> c and optionally one rule S -> d.X: unit cycles with an exit (1 536 grammars)."""
    V = ('S', 'A', 'B', 'C')
    cyc = [('S', ('A',)), ('A', ('B',)), ('B', ('S',))]
    other = [(x, (y,)) for x in V for y in V if x != y and (x, (y,)) not in cyc]
    idx = 0
    for bits in range(2 ** len(other)):
        units = cyc + [other[i] for i in range(len(other)) if bits >> i & 1]
        for ex in (None, ('d', 'A'), ('d', 'C')):
            rules = units + [('A', ('a',)), ('B', ('b',)), ('C', ('c',))] + ([('S', ex)] if ex else [])
            yield idx, ('cfg', ('A', 'B', 'C', 'S'), ('a', 'b', 'c', 'd'), tuple(sorted(rules, key=lambda r: (r[0] != 'S', r))), 'S')
            idx += 1


def cnf3(maxrules=5):
    """CNF grammars over V={S,A,B}: every rule set of size <= maxrules from the 19-rule menu in which S has a rule."""
    menu = []
    for X in ('S', 'A', 'B'):
        menu.append((X, ('a',)))
        menu.append((X, ('b',)))
    for X in ('S', 'A', 'B'):
        for Y in ('A', 'B'):
            for Z in ('A', 'B'):
                menu.append((X, (Y, Z)))
    menu.append(('S', ()))
    idx = 0
    for m in range(1, maxrules + 1):
        for c in itertools.combinations(menu, m):
            if any(l == 'S' for l, _ in c):
                yield idx, ('cfg', ('A', 'B', 'S'), ('a', 'b'), tuple(c), 'S')
                idx += 1
