"""Reference model for deterministic Turing machines: the Sipser step function with the two documented
conventions (missing transition -> reject, tape unchanged; left move at cell 0 stays)."""
import itertools

SYMS = ['a', 'b', 'c']


def strip(tape, blank):
    t = list(tape)
    while t and t[-1] == blank:
        t.pop()
    return t


def step(delta, q, tape, head, blank, q_reject):
    """One step on an explicit configuration. Returns (q', tape', head' or None if unspecified, implicit?)."""
    tape = list(tape)
    while head >= len(tape):
        tape.append(blank)
    a = tape[head]
    if (q, a) in delta:
        q1, b, d = delta[q, a]
        tape[head] = b
        head1 = max(head - 1, 0) if d == 'L' else head + 1
        return q1, tape, head1, False
    return q_reject, tape, None, True


def run(delta, q0, q_accept, q_reject, blank, w, k):
    """(verdict, configurations) after at most k steps."""
    q, tape, head = q0, list(w), 0
    confs = [(q, list(tape), head, False)]
    if q == q_accept:
        return True, confs
    if q == q_reject:
        return False, confs
    for _ in range(k):
        q, tape, head1, implicit = step(delta, q, tape, head, blank, q_reject)
        head = head if head1 is None else head1
        confs.append((q, list(tape), head1, implicit))
        if q == q_accept:
            return True, confs
        if q == q_reject:
            return False, confs
    return None, confs


# ---------------------------------------------------------------- spaces TM(w,g)
def tms(w, g):
    """w working states s0.. + accept + reject; Gamma = g-1 input letters + blank; every cell undefined or (target, write, L/R)."""
    nstates = w + 2
    cells = [(q, a) for q in range(w) for a in range(g)]
    opts = [None] + [(t, b, d) for t in range(nstates) for b in range(g) for d in 'LR']
    idx = 0
    for choice in itertools.product(opts, repeat=len(cells)):
        yield idx, ('tm', w, g, tuple(choice), 0)
        idx += 1
    if w == 0:
        return


def tm_halting_start(g):
    """The w=0 machines: start state is the accepting / rejecting state."""
    return [('tm', 0, g, (), 'accept'), ('tm', 0, g, (), 'reject')]


def parts(spec, blank='_', gamma=None, sigma=None, names=None, order='cells'):
    """gamma / sigma override the default tape alphabet (g-1 letters + blank); names overrides the working state names;
    order = 'cells' (state major) or 'symbols' (symbol major): insertion order of the delta dict."""
    _, w, g, choice, q0 = spec
    Q = (list(names[:w]) if names else ['s%d' % i for i in range(w)]) + ['qa', 'qr']
    if gamma is None:
        gamma = SYMS[:g - 1] + [blank]
    if sigma is None:
        sigma = [x for x in gamma if x != blank][:g - 1] if gamma is not None and len(gamma) != g else SYMS[:g - 1]
    cells = [(q, a) for q in range(w) for a in range(g)]
    items = []
    for (q, a), c in zip(cells, choice):
        if c is not None:
            t, b, d = c
            items.append(((Q[q], gamma[a]), (Q[t], gamma[b], d)))
    if order == 'symbols':
        items.sort(key=lambda it: (gamma.index(it[0][1]), it[0][0]))
    delta = dict(items)
    start = Q[0] if q0 == 0 else ('qa' if q0 == 'accept' else 'qr')
    return Q, sigma, gamma, delta, start, 'qa', 'qr', blank


def build(spec, blank='_', **kw):
    from gambatools.tm import TM
    Q, sigma, gamma, delta, q0, qa, qr, blank = parts(spec, blank, **kw)
    return TM(set(Q), set(sigma), set(gamma), dict(delta), q0, qa, qr, blank)


def show(spec, blank='_', **kw):
    Q, sigma, gamma, delta, q0, qa, qr, blank = parts(spec, blank, **kw)
    return {'Q': Q, 'Sigma': sigma, 'Gamma': gamma, 'q0': q0, 'accept': qa, 'reject': qr, 'blank': blank,
            'delta': sorted('{},{} -> {},{},{}'.format(p, a, *v) for (p, a), v in delta.items())}
