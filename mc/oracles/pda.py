"""Reference models for pushdown automata (Sipser style, acceptance by final state).
A reference PDA is (Q list, Sigma list, Gamma list, trans set of (p,a,u,q,v), q0, F set) with '' as epsilon."""
import collections
import itertools

EPS = ''


class Malformed(Exception):
    pass


class RPDA(object):
    __slots__ = ('Q', 'Sigma', 'Gamma', 'trans', 'q0', 'F')

    def __init__(self, Q, Sigma, Gamma, trans, q0, F):
        self.Q = list(Q)
        self.Sigma = sorted(Sigma)
        self.Gamma = sorted(Gamma)
        self.trans = set(trans)
        self.q0 = q0
        self.F = set(F)


def from_lib(P):
    from gambatools.pda import PDA
    if not isinstance(P, PDA):
        raise Malformed('result is {} not a PDA'.format(type(P).__name__))
    Q, Sg, Gm, delta, q0, F, e = P.Q, P.Sigma, P.Gamma, P.delta, P.q0, P.F, P.epsilon
    for name, x in (('Q', Q), ('Sigma', Sg), ('Gamma', Gm), ('F', F)):
        if not isinstance(x, (set, frozenset)):
            raise Malformed(name + ' is not a set')
    if q0 not in Q:
        raise Malformed('q0 {!r} not in Q'.format(q0))
    if not F <= Q:
        raise Malformed('F not a subset of Q')
    if e in Sg or e in Gm:
        raise Malformed('epsilon in Sigma or Gamma')
    trans = set()
    for (p, a, u) in list(delta.keys()):
        Q1 = delta[p, a, u]
        if p not in Q:
            raise Malformed('source {!r} not in Q'.format(p))
        if a != e and a not in Sg:
            raise Malformed('input symbol {!r} not in Sigma + epsilon'.format(a))
        if u != e and u not in Gm:
            raise Malformed('pop symbol {!r} not in Gamma + epsilon'.format(u))
        if not isinstance(Q1, (set, frozenset)):
            raise Malformed('delta value is not a set')
        for item in Q1:
            q, v = item
            if q not in Q:
                raise Malformed('target {!r} not in Q'.format(q))
            if v != e and v not in Gm:
                raise Malformed('push symbol {!r} not in Gamma + epsilon'.format(v))
            trans.add((p, EPS if a == e else a, EPS if u == e else u, q, EPS if v == e else v))
    return RPDA(sorted(Q), Sg, Gm, trans, q0, F)


def snap(P):
    rel = frozenset((p, a, u, q, v) for (p, a, u), Q1 in P.delta.items() for (q, v) in Q1)
    return (frozenset(P.Q), frozenset(P.Sigma), frozenset(P.Gamma), rel, P.q0, frozenset(P.F), P.epsilon)


# ---------------------------------------------------------------- saturation (exact acceptance)
def micro(trans):
    out = []
    mid = 0
    for (p, a, u, q, v) in sorted(trans, key=repr):
        if u == EPS and v == EPS:
            out.append((p, a, 'noop', None, q))
        elif u == EPS:
            out.append((p, a, 'push', v, q))
        elif v == EPS:
            out.append((p, a, 'pop', u, q))
        else:
            m = ('mid', mid)
            mid += 1
            out.append((p, a, 'pop', u, m))
            out.append((m, EPS, 'push', v, q))
    return out


def accepts(P, w):
    """B(p,i,q,j): from p at position i to q at position j with net-zero stack effect never dipping below the
    start level, closed under no-op moves, push..pop bracketing and concatenation.  U(q,j): reachable from
    (q0,0) with some stack, closed under B and unmatched pushes.  Accept iff U(f,|w|) for some f in F."""
    mv = micro(P.trans)
    n = len(w)

    def adv(i, a):
        if a == EPS:
            return i
        if i < n and w[i] == a:
            return i + 1
        return None

    states = set(P.Q) | {m[4] for m in mv} | {m[0] for m in mv}
    B = set((p, i, p, i) for p in states for i in range(n + 1))
    work = collections.deque(B)
    byend = collections.defaultdict(set)
    bystart = collections.defaultdict(set)
    for b in B:
        byend[(b[2], b[3])].add(b)
        bystart[(b[0], b[1])].add(b)

    def add(b):
        if b not in B:
            B.add(b)
            work.append(b)
            byend[(b[2], b[3])].add(b)
            bystart[(b[0], b[1])].add(b)

    pushes = [m for m in mv if m[2] == 'push']
    pops = [m for m in mv if m[2] == 'pop']
    noops = [m for m in mv if m[2] == 'noop']
    while work:
        (p, i, q, j) = work.popleft()
        for (s, a, _, _, t) in noops:
            if s == q:
                j2 = adv(j, a)
                if j2 is not None:
                    add((p, i, t, j2))
        for (_, _, r, k) in list(bystart[(q, j)]):
            add((p, i, r, k))
        for (p0, i0, _, _) in list(byend[(p, i)]):
            add((p0, i0, q, j))
        for (s, a, _, X, pp) in pushes:
            if pp != p:
                continue
            for i0 in range(i + 1):
                if adv(i0, a) != i:
                    continue
                for (qq, b, _, Y, t) in pops:
                    if qq == q and Y == X:
                        j2 = adv(j, b)
                        if j2 is not None:
                            add((s, i0, t, j2))
    U = {(P.q0, 0)}
    wk = collections.deque(U)
    while wk:
        (p, i) = wk.popleft()
        for (_, _, q, j) in bystart[(p, i)]:
            if (q, j) not in U:
                U.add((q, j))
                wk.append((q, j))
        for (s, a, _, X, t) in pushes:
            if s == p:
                j = adv(i, a)
                if j is not None and (t, j) not in U:
                    U.add((t, j))
                    wk.append((t, j))
    return any((f, n) in U for f in P.F)


def language(P, L, sigma=None):
    sigma = P.Sigma if sigma is None else sigma
    return {''.join(t) for n in range(L + 1) for t in itertools.product(sigma, repeat=n) if accepts(P, ''.join(t))}


# ---------------------------------------------------------------- explicit configurations
def succ(P, c, a):
    q, st = c
    r = set()
    for (p, x, u, t, v) in P.trans:
        if p != q or x != a:
            continue
        if u != EPS and (not st or st[-1] != u):
            continue
        s2 = st if u == EPS else st[:-1]
        s2 = s2 if v == EPS else s2 + (v,)
        r.add((t, s2))
    return r


def closure(P, R, cap):
    """Epsilon closure of a set of configurations; (set, complete?)  Stops once more than cap configurations are known."""
    res = set(R)
    todo = collections.deque(R)
    while todo:
        if len(res) > cap:
            return res, False
        c = todo.popleft()
        for d in succ(P, c, EPS):
            if d not in res:
                res.add(d)
                todo.append(d)
    return res, len(res) <= cap


def run_sets(P, w, cap):
    """The configuration sets the library's acceptance test has to compute (closure of whole sets).
    Returns (verdict or None, complete, max closure size seen, list of closure sizes)."""
    R, ok = closure(P, {(P.q0, ())}, cap)
    sizes = [len(R)]
    if not ok:
        return None, False, len(R), sizes
    for a in w:
        S = set()
        for c in R:
            S |= succ(P, c, a)
        R, ok = closure(P, S, cap)
        sizes.append(len(R))
        if not ok:
            return None, False, max(sizes), sizes
    return any(q in P.F for q, _ in R), True, max(sizes), sizes


def enum_sizes(P, n, cap):
    """Closure sizes the library's enumerator has to compute: closure of the initial configuration, then for every
    reached configuration r and letter a the closure of the successors of r.  Returns (complete, max size, language or None)."""
    R, ok = closure(P, {(P.q0, ())}, cap)
    mx = len(R)
    if not ok:
        return False, mx, None
    lang = set()
    W = {r: {''} for r in R}
    if any(q in P.F for q, _ in R):
        lang.add('')
    for _ in range(n):
        W1 = collections.defaultdict(set)
        for r, ws in W.items():
            for a in P.Sigma:
                S, ok = closure(P, succ(P, r, a), cap)
                mx = max(mx, len(S))
                if not ok:
                    return False, mx, None
                for r1 in S:
                    W1[r1] |= {w + a for w in ws}
                    if r1[0] in P.F:
                        lang |= {w + a for w in ws}
        W = W1
    return True, mx, lang


def accepting_configs(P, L, cap=400):
    """(accepting configurations reachable on words of length <= L, search complete?)  Explicit search, capped per closure."""
    out = set()
    R, complete = closure(P, {(P.q0, ())}, cap)
    layer = R
    for i in range(L + 1):
        out |= {c for c in layer if c[0] in P.F}
        if i == L:
            break
        nxt = set()
        for a in P.Sigma:
            S = set()
            for c in layer:
                S |= succ(P, c, a)
            S, ok = closure(P, S, cap)
            complete = complete and ok
            nxt |= S
        layer = nxt
    return out, complete


# ---------------------------------------------------------------- spaces
def universe(n, k, g):
    return [(p, a, u, q, v) for p in range(n) for a in range(k + 1) for u in range(g + 1) for q in range(n) for v in range(g + 1)]


def pdas(n, k, g, t, fbits=None, tmin=0):
    U = universe(n, k, g)
    fbits = range(2 ** n) if fbits is None else fbits
    idx = 0
    for m in range(tmin, t + 1):
        for tr in itertools.combinations(U, m):
            for q0 in range(n):
                for fb in fbits:
                    yield idx, ('pda', n, k, g, tr, q0, fb)
                    idx += 1


def parts(spec, stack=('x', 'y'), scheme='s'):
    from mc import spaces
    _, n, k, g, tr, q0, fb = spec
    Q = spaces.names(scheme, n)
    Sg = spaces.LETTERS[:k]
    Gm = list(stack[:g])
    T = set()
    for (p, a, u, q, v) in tr:
        T.add((Q[p], Sg[a] if a < k else EPS, Gm[u] if u < g else EPS, Q[q], Gm[v] if v < g else EPS))
    F = [Q[i] for i in range(n) if fb >> i & 1]
    return Q, Sg, Gm, T, Q[q0], F


def ref(spec, stack=('x', 'y'), scheme='s'):
    return RPDA(*parts(spec, stack, scheme))


def build(spec, stack=('x', 'y'), scheme='s', eps='_'):
    from gambatools.pda import PDA
    Q, Sg, Gm, T, q0, F = parts(spec, stack, scheme)
    from mc.spaces import fresh      # equal but distinct str objects, as a parser produces them
    delta = collections.defaultdict(set)
    for (p, a, u, q, v) in ordered_transitions(T, Q):
        delta[fresh(p), fresh(a) or eps, fresh(u) or eps].add((fresh(q), fresh(v) or eps))
    return PDA(set(Q), set(Sg), set(Gm), delta, q0, set(F), eps)


def ordered_transitions(T, Q):
    """Insertion order of the transition dict: the set's own order by default, else by the presentation knob."""
    from mc import spaces
    o = spaces.KNOBS['dorder']
    if o is None:
        return list(T)
    L = sorted(T, key=lambda t: (Q.index(t[0]), t[1], t[2], Q.index(t[3]), t[4]))
    if o == 'aq':
        L.sort(key=lambda t: (t[1], t[2], Q.index(t[0])))
    elif o == 'rev':
        L.reverse()
    return L


def show(spec, stack=('x', 'y'), scheme='s'):
    Q, Sg, Gm, T, q0, F = parts(spec, stack, scheme)
    return {'Q': Q, 'Sigma': Sg, 'Gamma': Gm, 'q0': q0, 'F': F,
            'transitions': sorted('{} -{},{}->{} {}'.format(p, a or 'ε', u or 'ε', v or 'ε', q) for (p, a, u, q, v) in T)}


_LIVE = {}


def morph(spec, stack=('x', 'y'), scheme='s', eps='_'):
    """One live PDA rewritten in place for every instance (see spaces.morph_nfa)."""
    Q, Sg, Gm, T, q0, F = parts(spec, stack, scheme)
    P = _LIVE.get('pda')
    if P is None:
        P = _LIVE['pda'] = build(spec, stack, scheme, eps)
        return P
    P.Q.clear(); P.Q.update(Q)
    P.Sigma.clear(); P.Sigma.update(Sg)
    P.Gamma.clear(); P.Gamma.update(Gm)
    P.delta.clear()
    for (p, a, u, q, v) in ordered_transitions(T, Q):
        P.delta[p, a or eps, u or eps].add((q, v or eps))
    P.q0 = q0
    P.F.clear(); P.F.update(F)
    P.epsilon = eps
    return P


# ---------------------------------------------------------------- thin families (wave 5)
def cyc_family(maxlen=5, front=False):
    """Coprime push / pop cycles, all moves epsilon: s -e,e->y p0 (bottom marker); p_i pushes x and goes round a cycle of
    a states, the cycle is left only from p_(a-1); r_j pops x round a cycle of b states; the marker is popped only in
    r_(b-1), entering f.  The empty word is accepted iff some m is a-1 mod a and b-1 mod b, and every accepting run
    climbs to m + 1 stack symbols - far above |Q| + the stack height at both ends of the epsilon path (a=3, b=4: 12)."""
    idx = 0
    for a in range(1, maxlen + 1):
        for b in range(1, maxlen + 1):
            n = a + b + 2
            k, g = 1, 2
            E, X = k, g
            s, f = 0, n - 1
            P = list(range(1, a + 1))
            Rr = list(range(a + 1, a + b + 1))
            tr = [(s, (0 if front else E), X, P[0], 1)]
            tr += [(P[i], E, X, P[(i + 1) % a], 0) for i in range(a)]
            tr += [(P[a - 1], E, X, Rr[0], X)]
            tr += [(Rr[j], E, 0, Rr[(j + 1) % b], X) for j in range(b)]
            tr += [(Rr[b - 1], E, 1, f, X)]
            yield idx, ('pda', n, k, g, tuple(sorted(set(tr))), 0, 1 << f)
            idx += 1


def fan_instance(d=8):
    """s -e-> s1, s -e-> s2 (no-ops); s1 -a-> u0 and s2 -a-> v0; u_i / v_i push x or y by epsilon moves (d times);
    u_d -e-> w (no-op); in w the letters a / b pop x / y; F = {w}; the v branch is dead.  After the first letter the
    closure computed from the configuration s1 alone has 2^(d+1) - 1 + 2^d configurations, from s2 alone 2^(d+1) - 1, and
    the closure of the SET of all current configurations has both (d = 8: 767, 511 and 1278 - on both sides of the default
    limit of 1000): an enumerator working configuration by configuration and an acceptance test working on the set only
    agree when the configured limit is honoured."""
    n = 2 * d + 6
    k, g = 2, 2
    E, X = k, g
    U = list(range(1, d + 2))
    V = list(range(d + 2, 2 * d + 3))
    w, s1, s2 = 2 * d + 3, 2 * d + 4, 2 * d + 5
    tr = [(0, E, X, s1, X), (0, E, X, s2, X), (s1, 0, X, U[0], X), (s2, 0, X, V[0], X)]
    for B in (U, V):
        for i in range(d):
            tr += [(B[i], E, X, B[i + 1], 0), (B[i], E, X, B[i + 1], 1)]
    tr += [(U[d], E, X, w, X), (w, 0, 0, w, X), (w, 1, 1, w, X)]
    return ('pda', n, k, g, tuple(sorted(tr)), 0, 1 << w)


def of_dfa(n, k, d, q0, fb):
    """A DFA written as a PDA: every move reads a letter and leaves the stack alone (neither push nor pop)."""
    X = 1
    tr = []
    i = 0
    for p in range(n):
        for a in range(k):
            tr.append((p, a, X, d[i], X))
            i += 1
    return ('pda', n, k, 1, tuple(tr), q0, fb)


def noop_family():
    """Counters modulo (p, q) over two letters written as PDAs with p*q*2 moves that neither push nor pop: conversions
    to push/pop format need one fresh intermediate state per move (12 and more: past a decimal carry in M9 / M10)."""
    idx = 0
    for (p, q) in ((3, 2), (2, 3), (7, 1), (4, 2)):
        n = p * q
        d = []
        for i in range(p):
            for j in range(q):
                d += [((i + 1) % p) * q + j, i * q + (j + 1) % q]
        for f in range(n):
            yield idx, of_dfa(n, 2, d, 0, 1 << f)
            idx += 1


def multichar_pushpop_family():
    """Five states, three letters, stack symbols meant to be named A, B, AB and a bottom marker: s0 pushes the marker,
    in s1 the letters a / b push A / B and c c (through s4) pushes AB, an epsilon no-op move leads to s2, where the
    letters pop A / B / AB; the marker is popped into the accepting state s3.  The stacks [A, B] and [AB] are reached by
    different words of the same length (ab and cc) and must stay apart; the full automaton and every automaton with one
    of the letter moves dropped."""
    k, g = 3, 4
    E, X = k, g
    fixed = [(0, E, X, 1, 3), (1, E, X, 2, X), (2, E, 3, 3, X), (1, 2, X, 4, X)]
    moves = [(1, 0, X, 1, 0), (1, 1, X, 1, 1), (4, 2, X, 1, 2), (2, 0, 0, 2, X), (2, 1, 1, 2, X), (2, 2, 2, 2, X)]
    idx = 0
    for drop in [None] + list(range(len(moves))):
        tr = tuple(sorted(fixed + [t for i, t in enumerate(moves) if i != drop]))
        yield idx, ('pda', 5, k, g, tr, 0, 8)
        idx += 1


def double_noop_family():
    """Thin family (wave 6): three states, two letters, two stack symbols.  Core: s0 -e,e->e s1 together with
    s0 -e,x->x s1 (two different moves with the same effect when x is on top).  Plus every choice of four moves from a
    menu of sixteen pushes / pops / no-ops / replaces, F = one state.  A closure computation that queues the same
    successor twice needs more iterations than the closure has configurations."""
    n, k, g = 3, 2, 2
    E, X = k, g
    core = [(0, E, X, 1, X), (0, E, 0, 1, 0)]
    menu = [(0, 0, X, 0, 0), (0, 1, X, 0, 1), (0, 0, X, 1, 0), (1, 0, X, 1, 0),
            (1, E, 0, 0, X), (1, E, 1, 2, X), (1, E, 0, 1, X), (1, E, 0, 2, X), (1, E, 1, 0, X),
            (1, 0, 0, 1, X), (1, 1, 1, 2, X),
            (1, E, X, 2, X), (2, E, X, 0, X), (0, 1, X, 2, X),
            (1, E, 1, 1, 0), (0, E, 1, 1, 1)]
    idx = 0
    for extra in itertools.combinations(menu, 4):
        for f in range(n):
            yield idx, ('pda', n, k, g, tuple(sorted(core + list(extra))), 0, 1 << f)
            idx += 1


def stackfree_family(n=3, k=1, t=4):
    """Thin family (wave 6): every epsilon-NFA with n states, k letters and exactly t transitions (q0 = s0, one accepting
    state) written as a PDA that never touches its stack: input moves and epsilon moves between the same states
    ("shortcuts"), cycles through the accepting state - without any stack effects in the way."""
    from mc import spaces
    X = 1
    idx = 0
    for _, (_, n_, k_, tr, q0, fb) in spaces.nfas(n, k, t, q0s=[0], fbits=[1 << i for i in range(n)], tmin=t):
        yield idx, ('pda', n_, k_, 1, tuple((p, x, X, q, X) for (p, x, q) in tr), q0, fb)
        idx += 1
