"""Reference models for regular expressions: Brzozowski derivatives and the Glushkov position automaton.
Expression specs are nested tuples: ('0',) ('1',) ('s', a) ('*', r) ('+', l, r) ('.', l, r)."""
import collections

from mc.oracles import fa

ZERO = ('0',)
ONE = ('1',)


class Malformed(Exception):
    pass


def from_lib(r, depth=0):
    """Library Regexp object -> spec (by inspection only)."""
    from gambatools import regexp as R
    if depth > 5000:
        raise Malformed('expression too deep / cyclic')
    if isinstance(r, R.Zero):
        return ZERO
    if isinstance(r, R.One):
        return ONE
    if isinstance(r, R.Symbol):
        if not isinstance(r.symbol, str) or len(r.symbol) < 1:
            raise Malformed('symbol {!r} is not a non-empty string'.format(r.symbol))
        return ('s', str(r.symbol))
    if isinstance(r, R.Iteration):
        return ('*', from_lib(r.operand, depth + 1))
    if isinstance(r, R.Sum):
        return ('+', from_lib(r.left, depth + 1), from_lib(r.right, depth + 1))
    if isinstance(r, R.Concat):
        return ('.', from_lib(r.left, depth + 1), from_lib(r.right, depth + 1))
    raise Malformed('not a Regexp node: {!r}'.format(type(r).__name__))


def to_lib(spec, share=None):
    """share: a dict -> equal subtrees become ONE node object (a DAG, as dfa_to_regexp produces them)."""
    if share is not None:
        if spec not in share:
            share[spec] = _to_lib(spec, share)
        return share[spec]
    return _to_lib(spec, None)


def _to_lib(spec, share):
    from gambatools import regexp as R
    to_lib_ = (lambda x: to_lib(x, share))
    t = spec[0]
    if t == '0':
        return R.Zero()
    if t == '1':
        return R.One()
    if t == 's':
        return R.Symbol(spec[1])
    if t == '*':
        return R.Iteration(to_lib_(spec[1]))
    if t == '+':
        return R.Sum(to_lib_(spec[1]), to_lib_(spec[2]))
    if t == '.':
        return R.Concat(to_lib_(spec[1]), to_lib_(spec[2]))
    raise ValueError(spec)


def show(spec):
    t = spec[0]
    if t in '01':
        return t
    if t == 's':
        return spec[1]
    if t == '*':
        return '(' + show(spec[1]) + ')*'
    return '(' + show(spec[1]) + (' + ' if t == '+' else ' . ') + show(spec[2]) + ')'


def nodes(spec):
    return 1 + sum(nodes(x) for x in spec[1:] if isinstance(x, tuple))


def doc_size(spec):
    """regexp_size as documented: leaves 0, star +1, binary +2."""
    t = spec[0]
    if t in ('0', '1', 's'):
        return 0
    if t == '*':
        return 1 + doc_size(spec[1])
    return 2 + doc_size(spec[1]) + doc_size(spec[2])


def symbols(spec):
    t = spec[0]
    if t == 's':
        return set(spec[1])
    out = set()
    for x in spec[1:]:
        if isinstance(x, tuple):
            out |= symbols(x)
    return out


def nullable(r):
    t = r[0]
    if t == '1' or t == '*':
        return True
    if t == '0' or t == 's':
        return False
    if t == '+':
        return nullable(r[1]) or nullable(r[2])
    return nullable(r[1]) and nullable(r[2])


def _plus(a, b):
    if a == ZERO:
        return b
    if b == ZERO:
        return a
    if a == b:
        return a
    return ('+', a, b)


def _dot(a, b):
    if a == ZERO or b == ZERO:
        return ZERO
    if a == ONE:
        return b
    if b == ONE:
        return a
    return ('.', a, b)


def deriv(r, c):
    t = r[0]
    if t in '01':
        return ZERO
    if t == 's':
        if r[1][0] != c:
            return ZERO
        return ONE if len(r[1]) == 1 else ('s', r[1][1:])      # a symbol may be an identifier of several characters
    if t == '+':
        return _plus(deriv(r[1], c), deriv(r[2], c))
    if t == '*':
        return _dot(deriv(r[1], c), r)
    d = _dot(deriv(r[1], c), r[2])
    if nullable(r[1]):
        d = _plus(d, deriv(r[2], c))
    return d


def matches(r, w):
    for c in w:
        r = deriv(r, c)
        if r == ZERO:
            return False
    return nullable(r)


def expand(r):
    """Multi-character symbols written out as concatenations of single characters."""
    t = r[0]
    if t == 's' and len(r[1]) > 1:
        out = ('s', r[1][-1])
        for ch in reversed(r[1][:-1]):
            out = ('.', ('s', ch), out)
        return out
    if t in ('0', '1', 's'):
        return r
    return (t,) + tuple(expand(x) for x in r[1:])


def glushkov(r, sigma=None):
    """Position automaton (epsilon free) as fa.FA."""
    r = expand(r)
    pos = []

    def rec(r):
        # returns (nullable, first, last) and fills follow
        t = r[0]
        if t == '0':
            return False, set(), set()
        if t == '1':
            return True, set(), set()
        if t == 's':
            pos.append(r[1])
            return False, {len(pos) - 1}, {len(pos) - 1}
        if t == '*':
            n, f, l = rec(r[1])
            for p in l:
                follow[p] |= f
            return True, f, l
        n1, f1, l1 = rec(r[1])
        n2, f2, l2 = rec(r[2])
        if t == '+':
            return n1 or n2, f1 | f2, l1 | l2
        for p in l1:
            follow[p] |= f2
        return n1 and n2, f1 | (f2 if n1 else set()), l2 | (l1 if n2 else set())

    follow = collections.defaultdict(set)
    n, first, last = rec(r)
    Q = ['i'] + list(range(len(pos)))
    d = collections.defaultdict(set)
    for p in first:
        d['i', pos[p]].add(p)
    for p, F in follow.items():
        for q in F:
            d[p, pos[q]].add(q)
    Fs = set(last) | ({'i'} if n else set())
    Sg = set(pos) | set(sigma or ())
    return fa.FA(Q, Sg, d, collections.defaultdict(set), 'i', Fs)


# ---------------------------------------------------------------- RE(m)
_MEMO = {}


def trees_of_size(n, leaves=('0', '1', 'a', 'b')):
    key = (n, leaves)
    if key in _MEMO:
        return _MEMO[key]
    out = []
    if n == 1:
        for x in leaves:
            out.append((x,) if x in ('0', '1') else ('s', x[1:] if x[0] == 's' and len(x) > 1 else x))     # 's0' / 's1': the SYMBOLS 0 and 1; 'sab': the identifier ab
    elif n >= 2:
        for r in trees_of_size(n - 1, leaves):
            out.append(('*', r))
        for i in range(1, n - 1):
            for op in ('+', '.'):
                for l in trees_of_size(i, leaves):
                    for r in trees_of_size(n - 1 - i, leaves):
                        out.append((op, l, r))
    _MEMO[key] = out
    return out


def trees_up_to(m, leaves=('0', '1', 'a', 'b')):
    idx = 0
    for n in range(1, m + 1):
        for t in trees_of_size(n, leaves):
            yield idx, t
            idx += 1
