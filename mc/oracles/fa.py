"""Reference models for finite automata (DESIGN 3.3).  Boring on purpose; never calls the library."""
import collections
import itertools


class Malformed(Exception):
    """A library result that is not a valid object of its class (reason in args[0])."""


class FA(object):
    """Q: list; Sigma: sorted list; delta[(q,a)] -> set (letters only); eps[q] -> set; q0; F: set."""
    __slots__ = ('Q', 'Sigma', 'delta', 'eps', 'q0', 'F')

    def __init__(self, Q, Sigma, delta, eps, q0, F):
        self.Q = list(Q)
        self.Sigma = sorted(Sigma)
        self.delta = delta
        self.eps = eps
        self.q0 = q0
        self.F = set(F)


def from_parts(Q, Sg, T, q0, F, eps_symbol):
    delta = collections.defaultdict(set)
    eps = collections.defaultdict(set)
    for (p, a, q) in T:
        if a == eps_symbol:
            eps[p].add(q)
        else:
            delta[p, a].add(q)
    return FA(Q, Sg, delta, eps, q0, F)


def from_dfa_parts(Q, Sg, delta, q0, F):
    d = collections.defaultdict(set)
    for (q, a), q1 in delta.items():
        d[q, a].add(q1)
    return FA(Q, Sg, d, collections.defaultdict(set), q0, F)


def from_lib_dfa(D, total=True):
    """Validity re-checked by oracle code, never by _check_validity."""
    Q, Sg, delta, q0, F = D.Q, D.Sigma, D.delta, D.q0, D.F
    if not isinstance(Q, (set, frozenset)) or not isinstance(Sg, (set, frozenset)) or not isinstance(F, (set, frozenset)):
        raise Malformed('Q, Sigma, F must be sets')
    if q0 not in Q:
        raise Malformed('q0 {!r} not in Q'.format(q0))
    if not F <= Q:
        raise Malformed('F not a subset of Q: {}'.format(sorted(F - Q)))
    for a in Sg:
        if not isinstance(a, str) or len(a) != 1:
            raise Malformed('symbol {!r} is not a single character'.format(a))
    for q in Q:
        if not isinstance(q, str):
            raise Malformed('state {!r} is not a string'.format(q))
    d = collections.defaultdict(set)
    for (q, a) in delta:
        q1 = delta[q, a]
        if q not in Q:
            raise Malformed('delta source {!r} not in Q'.format(q))
        if a not in Sg:
            raise Malformed('delta symbol {!r} not in Sigma'.format(a))
        if q1 not in Q:
            raise Malformed('delta target {!r} not in Q'.format(q1))
        d[q, a].add(q1)
    if total:
        for q in Q:
            for a in Sg:
                if (q, a) not in delta:
                    raise Malformed('not total: ({},{}) missing'.format(q, a))
    return FA(sorted(Q), Sg, d, collections.defaultdict(set), q0, F)


def from_lib_nfa(N):
    Q, Sg, delta, q0, F, e = N.Q, N.Sigma, N.delta, N.q0, N.F, N.epsilon
    if not isinstance(Q, (set, frozenset)) or not isinstance(Sg, (set, frozenset)) or not isinstance(F, (set, frozenset)):
        raise Malformed('Q, Sigma, F must be sets')
    if q0 not in Q:
        raise Malformed('q0 {!r} not in Q'.format(q0))
    if not F <= Q:
        raise Malformed('F not a subset of Q: {}'.format(sorted(F - Q)))
    if e in Sg:
        raise Malformed('epsilon {!r} in Sigma'.format(e))
    d = collections.defaultdict(set)
    eps = collections.defaultdict(set)
    for (q, a) in list(delta.keys()):
        Q1 = delta[q, a]
        if q not in Q:
            raise Malformed('delta source {!r} not in Q'.format(q))
        if a != e and a not in Sg:
            raise Malformed('delta symbol {!r} not in Sigma + epsilon'.format(a))
        if not isinstance(Q1, (set, frozenset)):
            raise Malformed('delta value for ({},{}) is not a set'.format(q, a))
        if not Q1 <= Q:
            raise Malformed('delta targets {} not in Q'.format(sorted(Q1 - Q)))
        if a == e:
            eps[q] |= Q1
        else:
            d[q, a] |= Q1
    return FA(sorted(Q), Sg, d, eps, q0, F)


def eclose(A, S):
    seen = set(S)
    todo = list(S)
    while todo:
        q = todo.pop()
        for r in A.eps.get(q, ()):
            if r not in seen:
                seen.add(r)
                todo.append(r)
    return seen


def accepts(A, w):
    """Existence of an accepting run, searched in the graph of (state, position) nodes."""
    n = len(w)
    start = (A.q0, 0)
    seen = {start}
    todo = collections.deque([start])
    while todo:
        q, i = todo.popleft()
        if i == n and q in A.F:
            return True
        for r in A.eps.get(q, ()):
            if (r, i) not in seen:
                seen.add((r, i))
                todo.append((r, i))
        if i < n:
            for r in A.delta.get((q, w[i]), ()):
                if (r, i + 1) not in seen:
                    seen.add((r, i + 1))
                    todo.append((r, i + 1))
    return False


def language(A, L, sigma=None):
    sigma = A.Sigma if sigma is None else sigma
    out = set()
    for n in range(L + 1):
        for t in itertools.product(sigma, repeat=n):
            w = ''.join(t)
            if accepts(A, w):
                out.add(w)
    return out


class DET(object):
    """Determinised automaton: states 0..m-1 (frozensets in .subsets), start 0, trans[i][a] -> j, finals."""
    __slots__ = ('Sigma', 'subsets', 'trans', 'finals')


def determinise(A, sigma=None):
    sigma = A.Sigma if sigma is None else sorted(sigma)
    s0 = frozenset(eclose(A, {A.q0}))
    ids = {s0: 0}
    subsets = [s0]
    trans = []
    i = 0
    while i < len(subsets):
        S = subsets[i]
        row = {}
        for a in sigma:
            T = set()
            for q in S:
                T |= A.delta.get((q, a), set())
            T = frozenset(eclose(A, T))
            j = ids.get(T)
            if j is None:
                j = ids[T] = len(subsets)
                subsets.append(T)
            row[a] = j
        trans.append(row)
        i += 1
    D = DET()
    D.Sigma = sigma
    D.subsets = subsets
    D.trans = trans
    D.finals = {i for i, S in enumerate(subsets) if S & A.F}
    return D


def equivalent(A, B, sigma=None):
    """Exact language equality over sigma (default: union of both alphabets; a letter an automaton does
    not know leads to its dead state).  Returns None or a SHORTEST distinguishing word."""
    if sigma is None:
        sigma = sorted(set(A.Sigma) | set(B.Sigma))
    DA = determinise(A, sigma)
    DB = determinise(B, sigma)
    return equivalent_det(DA, DB, sigma)


def equivalent_det(DA, DB, sigma):
    start = (0, 0)
    seen = {start: None}
    todo = collections.deque([start])
    while todo:
        p = todo.popleft()
        i, j = p
        if (i in DA.finals) != (j in DB.finals):
            w = []
            while seen[p] is not None:
                p, a = seen[p]
                w.append(a)
            return ''.join(reversed(w))
        for a in sigma:
            n = (DA.trans[i][a], DB.trans[j][a])
            if n not in seen:
                seen[n] = (p, a)
                todo.append(n)
    return None


def reachable(A):
    seen = {A.q0}
    todo = [A.q0]
    while todo:
        q = todo.pop()
        nxt = set(A.eps.get(q, ()))
        for a in A.Sigma:
            nxt |= A.delta.get((q, a), set())
        for r in nxt:
            if r not in seen:
                seen.add(r)
                todo.append(r)
    return seen


def dfa_step(A, q, a):
    (r,) = A.delta[q, a]
    return r


def nerode(A, states=None):
    """Moore refinement on a total DFA; returns dict state -> class id over `states` (default all).
    Classes are computed on all of Q (equivalence of states does not depend on reachability)."""
    Q = list(A.Q)
    cls = {q: (1 if q in A.F else 0) for q in Q}
    while True:
        sig = {q: (cls[q],) + tuple(cls[dfa_step(A, q, a)] for a in A.Sigma) for q in Q}
        ids = {}
        new = {}
        for q in Q:
            new[q] = ids.setdefault(sig[q], len(ids))
        if len(ids) == len(set(cls.values())):
            cls = new
            break
        cls = new
    if states is not None:
        return {q: cls[q] for q in states}
    return cls


def n_classes(A, states):
    c = nerode(A)
    return len({c[q] for q in states})


def iso(A, B):
    """Is there a bijection between the reachable parts of total DFAs A and B (same Sigma) mapping q0 to q0,
    commuting with delta and preserving F?  Synchronous BFS building the map and its inverse."""
    if A.Sigma != B.Sigma:
        return False
    f = {A.q0: B.q0}
    g = {B.q0: A.q0}
    todo = collections.deque([(A.q0, B.q0)])
    while todo:
        p, q = todo.popleft()
        if (p in A.F) != (q in B.F):
            return False
        for a in A.Sigma:
            p1 = dfa_step(A, p, a)
            q1 = dfa_step(B, q, a)
            if p1 in f or q1 in g:
                if f.get(p1) != q1 or g.get(q1) != p1:
                    return False
            else:
                f[p1] = q1
                g[q1] = p1
                todo.append((p1, q1))
    return True


def signature(A, sigma=None):
    """Canonical form of the language of A over sigma: the minimal complete DFA, states numbered in BFS order.
    Two automata have the same signature iff they accept the same language (over the same sigma)."""
    sigma = sorted(A.Sigma if sigma is None else sigma)
    D = determinise(A, sigma)
    n = len(D.subsets)
    cls = [1 if i in D.finals else 0 for i in range(n)]
    while True:
        sig = [(cls[i],) + tuple(cls[D.trans[i][a]] for a in sigma) for i in range(n)]
        ids = {}
        new = [ids.setdefault(s, len(ids)) for s in sig]
        stable = len(ids) == len(set(cls))
        cls = new
        if stable:
            break
    order = {cls[0]: 0}
    todo = [0]
    rows = []
    rep = {}
    for i in range(n):
        rep.setdefault(cls[i], i)
    k = 0
    queue = [cls[0]]
    while k < len(queue):
        c = queue[k]
        k += 1
        row = []
        for a in sigma:
            t = cls[D.trans[rep[c]][a]]
            if t not in order:
                order[t] = len(order)
                queue.append(t)
            row.append(order[t])
        rows.append((tuple(row), rep[c] in D.finals))
    return (tuple(sigma), tuple(rows))


# ---- second, differently built implementations used only by the self-test -------------------

def accepts_subset(A, w):
    S = eclose(A, {A.q0})
    for a in w:
        T = set()
        for q in S:
            T |= A.delta.get((q, a), set())
        S = eclose(A, T)
    return bool(S & A.F)


def distinguishable_pairwise(A, L):
    """Pairs of states of a total DFA distinguished by some word of length <= L (brute force)."""
    out = {}
    ws = [''.join(t) for n in range(L + 1) for t in itertools.product(A.Sigma, repeat=n)]
    def run(q, w):
        for a in w:
            q = dfa_step(A, q, a)
        return q in A.F
    for p in A.Q:
        for q in A.Q:
            out[p, q] = any(run(p, w) != run(q, w) for w in ws)
    return out
