"""evidence/<id>.json writer; validated against EVIDENCE.schema.json before it is written."""
import json
import os

ROOT = os.path.dirname(os.path.dirname(os.path.abspath(__file__)))
SCHEMA = '/root/.vp/EVIDENCE.schema.json'
SCHEMA_COPY = os.path.join(ROOT, 'mc', 'EVIDENCE.schema.json')


def _validate(doc):
    path = SCHEMA if os.path.exists(SCHEMA) else SCHEMA_COPY
    try:
        import jsonschema
    except ImportError:
        jsonschema = None
    with open(path) as f:
        schema = json.load(f)
    if jsonschema is not None:
        jsonschema.validate(doc, schema)
    else:
        # minimal structural check when jsonschema is not importable in this interpreter
        for k in schema['required']:
            assert k in doc, k
        cov = doc['coverage']
        for k in ('states', 'transitions', 'traces_validated_against_impl', 'samples', 'evaluations', 'distinct_nontrivial', 'rule'):
            assert k in cov, k
        assert cov['states'] >= 1 and cov['transitions'] >= 1 and len(cov['samples']) >= 1
        assert cov['evaluations'] >= 1 and cov['distinct_nontrivial'] >= 2


def write(pid, tier, seed, acc, spec, wall, known_lines, viol_count, extra=None):
    cov = {
        'states': acc.states,
        'transitions': acc.transitions,
        'traces_validated_against_impl': acc.validated,
        'samples': acc.samples or ['(no sample recorded)'],
        'evaluations': acc.evals,
        'distinct_nontrivial': acc.nontrivial,
        'rule': spec.get('rule', ''),
        'exhaustive': bool(spec.get('exhaustive', False)),
        'bounds': spec.get('bounds', {}),
        'counters': {k: acc.c[k] for k in sorted(acc.c)},
        'maxima': acc.maxes,
        'known_findings': known_lines,
        'explanation': spec.get('explanation', 'every case inside the stated bounds was executed on the real code from the working tree and judged by the reference model; nothing is sampled except layers marked as strided'),
    }
    if extra:
        cov.update(extra)
    doc = {
        'property_id': pid,
        'tier': tier,
        'seed': int(seed),
        'level': 'model_checking',
        'coverage': cov,
        'assumptions': spec.get('assumptions', []),
        'wall_s': round(wall, 2),
        'violations': int(viol_count),
    }
    _validate(doc)
    os.makedirs(os.path.join(ROOT, 'evidence'), exist_ok=True)
    path = os.path.join(ROOT, 'evidence', pid + '.json')
    tmp = path + '.tmp'
    with open(tmp, 'w') as f:
        json.dump(doc, f, indent=1, ensure_ascii=False, sort_keys=False)
        f.write('\n')
    os.replace(tmp, path)
    return path
