"""C12 - an exercise checker never prints OK for an answer that does not satisfy the exercise's criterion, and a
reported counterexample word is genuine (right polarity, minimal length for the language comparison).
Only 'OK => criterion' is demanded (the converse is C13); each criterion is the weakest reading of the exercise."""
import collections
import itertools
import os
import re
import tempfile

from mc import core, spaces
from mc.oracles import fa, rx, cfg, pda, tm
from mc.props import c13, c15


def tup(x):
    return tuple(tup(y) for y in x) if isinstance(x, list) else x


def run_checker(f, *args, **kw):
    with core.captured_stdout() as buf:
        f(*args, **kw)
    out = buf.getvalue().strip()
    lines = [l for l in out.split('\n') if l.strip()]
    return (bool(lines) and lines[0].strip() == 'OK'), lines


WORD_RE = re.compile(r"word '([^']*)' (should not be accepted|should be accepted|is not accepted)")


def reported_word(lines):
    for l in lines:
        m = WORD_RE.search(l)
        if m:
            w = m.group(1)
            return ('' if w == 'ε' else w), m.group(2)
    return None


def check_feedback_word(acc, name, inst, rp, lines, answer_lang, ref_lang, minimal=False):
    """A reported counterexample must be a genuine difference with the right polarity."""
    rw = reported_word(lines)
    if rw is None:
        return
    w, pol = rw
    acc.c['counterexample_words_checked'] += 1
    if pol == 'should not be accepted':
        good = w in answer_lang and w not in ref_lang
    else:
        good = w in ref_lang and w not in answer_lang
    if not good:
        acc.viol(name, 'reported counterexample word is not a genuine difference with that polarity', inst, repro=rp, observed=lines[:2])
    elif minimal:
        # weakest reading: minimal among the differences of the reported polarity
        side = (answer_lang - ref_lang) if pol == 'should not be accepted' else (ref_lang - answer_lang)
        m = min(len(x) for x in side)
        if len(w) != m:
            acc.viol(name, 'reported counterexample word is not of minimal length', inst, repro=rp, observed=lines[:2], expected=m)


# ---------------------------------------------------------------- text rendering (oracle side)
def dfa_text(Q, Sg, delta, q0, F, declare=True):
    lines = []
    if declare:
        lines.append('states ' + ' '.join(Q))
        lines.append('input_symbols ' + ' '.join(Sg))
    lines.append('initial ' + q0)
    lines.append(('final ' + ' '.join(F)).rstrip())
    for (p, a), q in sorted(delta.items()):
        lines.append('{} {} {}'.format(p, q, a))
    return '\n'.join(lines)


def nfa_text(Q, Sg, T, q0, F, eps):
    lines = ['states ' + ' '.join(Q), 'input_symbols ' + ' '.join(Sg), 'initial ' + q0, ('final ' + ' '.join(F)).rstrip(), 'epsilon ' + eps]
    for (p, a, q) in sorted(T):
        lines.append('{} {} {}'.format(p, q, a))
    return '\n'.join(lines)


def lang_of_fa(A, L, sigma=None):
    return fa.language(A, L, sigma)


# ---------------------------------------------------------------- 1. compare_languages / check_equal_languages
def t_compare(acc, shard, nshard):
    from gambatools.language_generator import compare_languages, check_equal_languages
    from mc.props.c14 import finite_languages
    langs = list(finite_languages())
    for b1, L1 in langs:
        if b1 % nshard != shard:
            continue
        for b2, L2 in langs:
            inst = {'answer': sorted(L1), 'expected': sorted(L2)}
            rp = {'fn': 'mc.props.c12:one_compare', 'mode': 'plain', 'params': {'b1': b1, 'b2': b2}}
            ok, fb = core.lib_call(acc, 'compare_languages', inst, compare_languages, set(L1), set(L2), repro=rp)
            acc.transitions += 1
            acc.states += 1
            if not ok:
                continue
            acc.evals += 1
            acc.validated += 1
            if (fb == []) != (L1 == L2):
                acc.viol('compare_languages', 'feedback empty although the languages differ (or not empty although equal)', inst, repro=rp, observed=fb)
            elif fb:
                acc.nontrivial += 1
                check_feedback_word(acc, 'compare_languages', inst, rp, fb, L1, L2, minimal=True)
    if shard == 0:
        for i1, s1 in spaces.dfas(2, 2):
            for i2, s2 in spaces.dfas(2, 2):
                if (i1 * 7 + i2) % 5:
                    continue
                D1, D2 = spaces.build_dfa(s1), spaces.build_dfa(s2, 'r')
                A1, A2 = fa.from_dfa_parts(*spaces.dfa_parts(s1)), fa.from_dfa_parts(*spaces.dfa_parts(s2, 'r'))
                l1, l2 = lang_of_fa(A1, 4), lang_of_fa(A2, 4)
                inst = {'L1': s1, 'L2': s2}
                ok, fb = core.lib_call(acc, 'check_equal_languages', inst, check_equal_languages, D1, D2, 4)
                acc.transitions += 1
                if ok:
                    acc.evals += 1
                    if (fb == []) != (l1 == l2):
                        acc.viol('check_equal_languages', 'feedback empty although the languages differ up to the length bound (or not empty although equal)', inst, observed=fb)
                    elif fb:
                        check_feedback_word(acc, 'check_equal_languages', inst, None, fb, l1, l2, minimal=True)


def one_compare(acc, b1, b2):
    from gambatools.language_generator import compare_languages
    from mc.props.c14 import finite_languages
    langs = dict(finite_languages())
    L1, L2 = langs[b1], langs[b2]
    fb = compare_languages(set(L1), set(L2))
    inst = {'answer': sorted(L1), 'expected': sorted(L2)}
    if (fb == []) != (L1 == L2):
        acc.viol('compare_languages', 'feedback empty although the languages differ (or not empty although equal)', inst, observed=fb)
    elif fb:
        check_feedback_word(acc, 'compare_languages', inst, None, fb, L1, L2, minimal=True)


# ---------------------------------------------------------------- 2. language from words / from file, accepts-rejects
def answers_for(kind, size):
    """(text, oracle language function L -> set, number of states or None) for every small answer of a kind."""
    if kind == 'dfa':
        for (n, k) in ((1, 1), (2, 1), (1, 2), (2, 2)):
            for idx, s in spaces.dfas(n, k):
                Q, Sg, d, q0, F = spaces.dfa_parts(s)
                A = fa.from_dfa_parts(Q, Sg, d, q0, F)
                yield dfa_text(Q, Sg, d, q0, F), (lambda L, A=A: fa.language(A, L)), len(Q), ('dfa', s)
    elif kind == 'nfa':
        for idx, s in spaces.nfas(2, 1, None if size == 'm' else 4):
            Q, Sg, T, q0, F = spaces.nfa_parts(s, 's', '_')
            A = fa.from_parts(Q, Sg, T, q0, F, '_')
            yield nfa_text(Q, Sg, T, q0, F, '_'), (lambda L, A=A: fa.language(A, L)), len(Q), ('nfa', s)
        for idx, s in spaces.nfas(2, 2, 2):
            Q, Sg, T, q0, F = spaces.nfa_parts(s, 's', 'ε')
            A = fa.from_parts(Q, Sg, T, q0, F, 'ε')
            yield nfa_text(Q, Sg, T, q0, F, 'ε'), (lambda L, A=A: fa.language(A, L)), len(Q), ('nfa', s)
        for n in (5, 6, 7, 8):
            # long epsilon chains (a closure computed by repeated squaring needs ceil(log2 n) rounds)
            for idx, s in spaces.nfa_chains(n):
                if idx % 97 not in (0, 1):
                    continue
                Q, Sg, T, q0, F = spaces.nfa_parts(s, 'q', '_')
                A = fa.from_parts(Q, Sg, T, q0, F, '_')
                yield nfa_text(Q, Sg, T, q0, F, '_'), (lambda L, A=A: fa.language(A, L)), len(Q), ('nfa', s)
    elif kind == 'regexp':
        for idx, r in rx.trees_up_to(4 if size == 's' else 5):
            sy = sorted(rx.symbols(r))
            yield c13.show_simple(r), (lambda L, r=r, sy=sy: {w for w in spaces.words(sy, L) if rx.matches(r, w)}), None, ('re', r)
    elif kind == 'cfg':
        for idx, g in cfg.cfg2():
            if idx % (97 if size == 's' else 23) != 5 or not cfg.normalise_simple(g):
                continue
            lhs = {l for l, _ in g[3]}
            terms = tuple(sorted({x for _, rhs in g[3] for x in rhs if x not in g[1]}))
            g2 = ('cfg', tuple(sorted(lhs)), terms, g[3], g[4])
            yield c13.grammar_text(g2), (lambda L, g2=g2: cfg.language(g2, L)[0]), None, ('cfg', g2)
            if len({l for l, _ in g2[3]}) >= 2 and len(g2[3]) > len({l for l, _ in g2[3]}):
                # wave 6: the same grammar written one alternative per line, lines of different variables interleaved
                yield c13.grammar_text_lines(g2), (lambda L, g2=g2: cfg.language(g2, L)[0]), None, ('cfg', g2, 'lines')
    elif kind == 'pda':
        for idx, s in pda.pdas(1, 1, 1, 3):
            P = pda.ref(s)
            accs, complete = pda.accepting_configs(P, 3, cap=30)
            _, c2, mx, _ = pda.run_sets(P, 'aaa', 30)
            if not c2:
                continue                      # stack-growing closures: the checker's bounded search is not the subject here
            from mc.props import c17
            yield c13.text_of(c17.desc_pda(s, ('x', 'y'), '_')), (lambda L, P=P: pda.language(P, L)), 1, ('pda', s)
    elif kind == 'tm':
        from mc.props import c17
        for idx, s in tm.tms(1, 2):
            Q, sigma, gamma, delta, q0, qa, qr, blank = tm.parts(s)
            yield c13.text_of(c17.desc_tm(s, '_')), (lambda L, p=(delta, q0, qa, qr, blank), sigma=sigma: {w for w in spaces.words(sigma, L) if tm.run(p[0], p[1], p[2], p[3], p[4], w, 1000)[0] is True}), 3, ('tm', s)
        for idx, s in tm.tms(1, 3):
            if idx % 7:
                continue
            for blank in ('_', 'x'):
                # two machines that differ only in which symbol of the same tape alphabet is the blank
                Q, sigma, gamma, delta, q0, qa, qr, blank = tm.parts(s, blank, gamma=['a', '_', 'x'], sigma=['a'])
                lines = ['states ' + ' '.join(Q), 'initial ' + q0, 'accept ' + qa, 'reject ' + qr, 'input_symbols a', 'tape_symbols a _ x', 'blank ' + blank]
                lines += ['{} {} {}{},{}'.format(p, v[0], a, v[1], v[2]) for (p, a), v in delta.items()]
                yield '\n'.join(lines), (lambda L, p=(delta, q0, qa, qr, blank): {w for w in spaces.words(['a'], L) if tm.run(p[0], p[1], p[2], p[3], p[4], w, 1000)[0] is True}), 3, ('tm', s, blank)


def reference_word_sets(length):
    """Reference languages: the languages (up to `length`) of all DFAs of DFA(2,1) and DFA(2,2), deduplicated."""
    seen = {}
    for (n, k) in ((2, 1), (2, 2)):
        for idx, s in spaces.dfas(n, k):
            A = fa.from_dfa_parts(*spaces.dfa_parts(s))
            seen.setdefault(frozenset(fa.language(A, length)), s)
    return list(seen)


def t_from_words(acc, kind, length, shard, nshard, size='s'):
    import gambatools.notebook as nb
    checker = getattr(nb, 'check_{}_language_from_words'.format(kind))
    refs = reference_word_sets(length)
    tmp = tempfile.mkdtemp(prefix='gv_c12_')
    prev_lang = None
    try:
        gidx, gkey = -1, None
        for i, (text, langf, nstates, desc) in enumerate(answers_for(kind, size)):
            if desc[:2] != gkey:                   # answers built from the same spec (siblings) stay in one worker, back to back
                gkey = desc[:2]
                gidx += 1
            if gidx % nshard != shard:
                continue
            acc.states += 1
            alang = langf(length)
            # all reference languages that are "near" the answer: itself, and every reference differing in <= 2 words, plus a stride of the
            # rest, plus the language of the PREVIOUS answer (a checker that confuses two consecutive submissions says OK exactly there)
            tried = [(j, ref) for j, ref in enumerate(refs) if len(alang ^ ref) <= 2 or (i + j) % 11 == 0]
            if prev_lang is not None and all(prev_lang != r for _, r in tried):
                tried.append((len(refs), prev_lang))
            prev_lang = frozenset(alang)
            for j, ref in tried:
                word_list = ' '.join((w or 'ε') for w in sorted(ref, key=lambda w: (len(w), w)))
                for max_states in ((0,) if nstates is None else (0, 1, 2)):
                    inst = {'checker': checker.__name__, 'answer': text, 'word_list': word_list, 'length': length, 'max_states': max_states}
                    rp = {'fn': 'mc.props.c12:one_from_words', 'mode': 'plain', 'params': {'kind': kind, 'desc': desc, 'ref': sorted(ref), 'length': length, 'max_states': max_states}}
                    args = (text, word_list, length) + ((max_states,) if nstates is not None else ())
                    ok, res = core.lib_call(acc, checker.__name__, inst, run_checker, checker, *args, repro=rp)
                    acc.transitions += 1
                    if not ok:
                        continue
                    acc.evals += 1
                    acc.validated += 1
                    judge_from_words(acc, checker.__name__, inst, rp, res, alang, ref, nstates, max_states)
            if kind in ('dfa', 'nfa', 'regexp', 'cfg') and i % 7 == 0:
                # the same criterion through a reference file
                ext = {'dfa': '.dfa'}[kind] if kind == 'dfa' else None
    finally:
        import shutil
        shutil.rmtree(tmp, ignore_errors=True)


def judge_from_words(acc, name, inst, rp, res, alang, ref, nstates, max_states):
    okv, lines = res
    if okv:
        acc.c['OK_verdicts'] += 1
        if alang != ref:
            acc.viol(name, 'OK although the answer language differs from the word list up to the length bound', inst, repro=rp, observed=sorted(alang ^ ref)[:4])
        if nstates is not None and 0 < max_states < nstates:
            acc.viol(name, 'OK although the maximum number of states is exceeded', inst, repro=rp, observed=nstates)
        if alang == ref:
            acc.nontrivial += 1
    else:
        acc.c['rejections'] += 1
        check_feedback_word(acc, name, inst, rp, lines, alang, ref, minimal=True)


def one_from_words(acc, kind, desc, ref, length, max_states):
    import gambatools.notebook as nb
    checker = getattr(nb, 'check_{}_language_from_words'.format(kind))
    desc = tup(desc)
    for (text, langf, nstates, d) in answers_for(kind, 'm'):
        if tup(d) == desc:
            word_list = ' '.join((w or 'ε') for w in sorted(ref, key=lambda w: (len(w), w)))
            args = (text, word_list, length) + ((max_states,) if nstates is not None else ())
            res = run_checker(checker, *args)
            judge_from_words(acc, checker.__name__, {'answer': text, 'word_list': word_list}, None, res, langf(length), set(ref), nstates, max_states)
            return


def t_from_file(acc, length, shard, nshard, only_ref=None):
    """check_*_language_from_file: the reference is a DFA file written by oracle code."""
    import gambatools.notebook as nb
    tmp = tempfile.mkdtemp(prefix='gv_c12_')
    try:
        refs = [s for _, s in spaces.dfas(2, 2)][::3]
        for ri, rs in enumerate(refs):
            if ri % nshard != shard or (only_ref is not None and ri != only_ref):
                continue
            rpf = {'fn': 'mc.props.c12:t_from_file', 'mode': 'plain', 'params': {'length': length, 'shard': shard, 'nshard': nshard, 'only_ref': ri}}
            Q, Sg, d, q0, F = spaces.dfa_parts(rs, 'r')
            R = fa.from_dfa_parts(Q, Sg, d, q0, F)
            rlang = fa.language(R, length)
            path = os.path.join(tmp, 'ref%d.dfa' % ri)
            with open(path, 'w', encoding='utf8') as f:
                f.write(dfa_text(Q, Sg, d, q0, F))
            for kind in ('dfa', 'nfa', 'regexp'):
                checker = getattr(nb, 'check_{}_language_from_file'.format(kind))
                # the same reference file is first used with a smaller length bound (a checker must not remember it)
                first = next(iter(answers_for(kind, 's')))
                core.lib_call(acc, checker.__name__, {'warm_up': True}, run_checker, checker, first[0], path, 1)
                for i, (text, langf, nstates, desc) in enumerate(answers_for(kind, 's')):
                    alang = langf(length)
                    if len(alang ^ rlang) > 2 and (i + ri) % 17:
                        continue
                    inst = {'checker': checker.__name__, 'answer': text, 'reference_dfa': dfa_text(Q, Sg, d, q0, F), 'length': length}
                    ok, res = core.lib_call(acc, checker.__name__, inst, run_checker, checker, text, path, length, repro=rpf)
                    acc.transitions += 1
                    if not ok:
                        continue
                    acc.evals += 1
                    acc.validated += 1
                    okv, lines = res
                    if okv and alang != rlang:
                        acc.viol(checker.__name__, 'OK although the answer language differs from the reference file up to the length bound', inst, repro=rpf, observed=sorted(alang ^ rlang)[:4])
                    elif not okv:
                        check_feedback_word(acc, checker.__name__, inst, rpf, lines, alang, rlang, minimal=True)
            acc.states += 1
    finally:
        import shutil
        shutil.rmtree(tmp, ignore_errors=True)


def t_accepts_rejects(acc, shard, nshard):
    """check_automaton_accepts_rejects / check_dfa_accepts_rejects / check_cfg_accepts_rejects / check_cfg_accepts / check_cfg_rejects."""
    import gambatools.notebook as nb
    import gambatools.notebook_experimental as ne
    from gambatools.dfa_algorithms import parse_dfa
    from gambatools.nfa_algorithms import parse_nfa
    from gambatools.regexp_simple_parser import parse_simple_regexp
    W = list(spaces.words(['a', 'b'], 2))
    lists = []
    for m1 in range(0, 3):
        for acc_l in itertools.combinations(W, m1):
            for m2 in range(0, 3):
                for rej_l in itertools.combinations([w for w in W if w not in acc_l], m2):
                    lists.append((acc_l, rej_l))
    n = 0
    for kind, parser in (('dfa', parse_dfa), ('nfa', parse_nfa), ('regexp', parse_simple_regexp), ('cfg', None)):
        for i, (text, langf, nstates, desc) in enumerate(answers_for(kind, 's')):
            n += 1
            if n % nshard != shard:
                continue
            lang = langf(2)
            acc.states += 1
            for j, (al, rl) in enumerate(lists):
                if (i + j) % 9 and not (set(al) <= lang and not (set(rl) & lang)):
                    continue
                a_s = ' '.join(w or 'ε' for w in al)
                r_s = ' '.join(w or 'ε' for w in rl)
                inst = {'kind': kind, 'answer': text, 'accepted': a_s, 'rejected': r_s}
                good = set(al) <= lang and not (set(rl) & lang)
                calls = []
                if kind == 'cfg':
                    calls.append(('check_cfg_accepts_rejects', nb.check_cfg_accepts_rejects, (text, a_s, r_s), good))
                    calls.append(('check_cfg_accepts', ne.check_cfg_accepts, (text, a_s), set(al) <= lang))
                    calls.append(('check_cfg_rejects', ne.check_cfg_rejects, (text, r_s), not (set(rl) & lang)))
                else:
                    try:
                        X = parser(text)
                    except Exception:
                        continue
                    calls.append(('check_automaton_accepts_rejects', nb.check_automaton_accepts_rejects, (X, a_s, r_s), good))
                    if kind == 'dfa':
                        calls.append(('check_dfa_accepts_rejects', nb.check_dfa_accepts_rejects, (text, a_s, r_s), good))
                rpa = {'fn': 'mc.props.c12:t_accepts_rejects', 'mode': 'plain', 'params': {'shard': shard, 'nshard': nshard}}
                for name, f, args, crit in calls:
                    if kind == 'dfa' and any(c not in desc_sigma(desc) for w in al + rl for c in w):
                        continue       # words outside the DFA's alphabet: the exercise never lists them
                    ok, res = core.lib_call(acc, name, inst, run_checker, f, *args, repro=rpa)
                    acc.transitions += 1
                    if not ok:
                        continue
                    acc.evals += 1
                    acc.validated += 1
                    if res[0]:
                        acc.nontrivial += 1 if crit else 0
                        if not crit:
                            acc.viol(name, 'OK although a listed word is classified wrongly by the answer', inst, repro=rpa, observed=sorted(lang))


def desc_sigma(desc):
    if desc[0] == 'dfa':
        return spaces.LETTERS[:desc[1][2]]
    return ['a', 'b']


# ---------------------------------------------------------------- 3. product / complement / reverse / minimal
def pair_name(p, q):
    return '({},{})'.format(p, q)


def product_answers(A, B, opf):
    """(label, text, satisfies_criterion) for the product exercises."""
    Q = [(p, q) for p in A.Q for q in B.Q]
    delta = {((p, q), a): (fa.dfa_step(A, p, a), fa.dfa_step(B, q, a)) for (p, q) in Q for a in A.Sigma}
    F = [s for s in Q if opf(s[0] in A.F, s[1] in B.F)]
    q0 = (A.q0, B.q0)

    def text(Qs, d, q0_, Fs):
        nm = lambda s: pair_name(*s)
        return dfa_text([nm(s) for s in Qs], A.Sigma, {(nm(s), a): nm(t) for (s, a), t in d.items()}, nm(q0_), [nm(s) for s in Fs])

    yield 'correct full product', text(Q, delta, q0, F), True
    # reachable part only
    reach = {q0}
    todo = [q0]
    while todo:
        s = todo.pop()
        for a in A.Sigma:
            t = delta[s, a]
            if t not in reach:
                reach.add(t)
                todo.append(t)
    Qr = [s for s in Q if s in reach]
    yield 'correct reachable product', text(Qr, {k: v for k, v in delta.items() if k[0] in reach}, q0, [s for s in F if s in reach]), True
    # single-edit mutants
    for s in Q:
        F2 = [x for x in F if x != s] if s in F else F + [s]
        yield 'flipped accepting status of ' + pair_name(*s), text(Q, delta, q0, F2), False
    for (s, a), t in sorted(delta.items()):
        for t2 in Q:
            if t2 != t:
                d2 = dict(delta)
                d2[s, a] = t2
                yield 'retargeted transition', text(Q, d2, q0, F), False
                break
    for s in Q:
        if s != q0:
            yield 'other initial state', text(Q, delta, s, F), False
            break


def t_products(acc, shard, nshard, stride=1):
    import gambatools.notebook_dfa as nd
    from mc.props.c14 import OPS
    n = 0
    for k in (1, 2):
        for i1, s1 in spaces.dfas(2, k):
            for i2, s2 in spaces.dfas(2, k):
                n += 1
                if n % stride or (n // stride) % nshard != shard:
                    continue
                A = fa.from_dfa_parts(*spaces.dfa_parts(s1, 's'))
                B = fa.from_dfa_parts(*spaces.dfa_parts(s2, 'r'))
                t1 = dfa_text(*spaces.dfa_parts(s1, 's'))
                t2 = dfa_text(*spaces.dfa_parts(s2, 'r'))
                acc.states += 1
                for opname, opf in OPS.items():
                    checker = getattr(nd, 'check_' + opname)
                    from mc.props.c14 import ref_product
                    P = ref_product(A, B, opf)
                    for label, text, structurally_right in product_answers(A, B, opf):
                        inst = {'checker': checker.__name__, 'dfa1': t1, 'dfa2': t2, 'answer_kind': label, 'answer': text}
                        rp = {'fn': 'mc.props.c12:one_product', 'mode': 'plain', 'params': {'s1': s1, 's2': s2, 'opname': opname, 'label': label}}
                        ok, res = core.lib_call(acc, checker.__name__, inst, run_checker, checker, text, t1, t2, repro=rp)
                        acc.transitions += 1
                        if not ok:
                            continue
                        acc.evals += 1
                        acc.validated += 1
                        if res[0]:
                            acc.c['OK_verdicts'] += 1
                            crit = product_criterion(text, A, B, opf, P)
                            if label != 'correct' and len(acc.samples) < 2:
                                acc.sample(dict(inst, verdict='OK', criterion_violated=crit or None))
                            if crit:
                                acc.viol(checker.__name__, 'OK although the answer violates the criterion of the product exercise', inst, repro=rp, observed=crit)
                            else:
                                acc.nontrivial += 1


def product_criterion(text, A, B, opf, P):
    """None if the answer satisfies the criterion, else the reason.  Weakest reading: a sub-automaton of the
    product (pair states, component-wise transitions, right initial pair, accepting exactly per the operation)
    whose language is the operation's on all words up to length 8."""
    from gambatools.dfa_algorithms import parse_dfa
    from gambatools.automaton_algorithms import state_product_regex
    try:
        X = parse_dfa(text, state_regex=state_product_regex())
    except Exception as e:
        return 'answer is not a parsable DFA: ' + str(e)[:80]
    if set(X.Sigma) != set(A.Sigma):
        return 'alphabet differs'
    def split(s):
        a, b = s[1:-1].split(',')
        return a, b
    for s in X.Q:
        p, q = split(s)
        if p not in A.Q or q not in B.Q:
            return 'state {} is not a product state'.format(s)
        if (s in X.F) != opf(p in A.F, q in B.F):
            return 'accepting status of {} is wrong'.format(s)
    if split(X.q0) != (A.q0, B.q0):
        return 'initial state is wrong'
    for (s, a), t in X.delta.items():
        p, q = split(s)
        if split(t) != (fa.dfa_step(A, p, a), fa.dfa_step(B, q, a)):
            return 'transition {} -{}-> {} is not component-wise'.format(s, a, t)
    R = fa.from_lib_dfa(X)
    w = fa.equivalent(R, P, sigma=A.Sigma)
    if w is not None and len(w) <= 8:
        return 'language differs on ' + (w or 'ε')
    return None


def one_product(acc, s1, s2, opname, label):
    import gambatools.notebook_dfa as nd
    from mc.props.c14 import OPS, ref_product
    s1, s2 = tup(s1), tup(s2)
    A = fa.from_dfa_parts(*spaces.dfa_parts(s1, 's'))
    B = fa.from_dfa_parts(*spaces.dfa_parts(s2, 'r'))
    opf = OPS[opname]
    P = ref_product(A, B, opf)
    t1, t2 = dfa_text(*spaces.dfa_parts(s1, 's')), dfa_text(*spaces.dfa_parts(s2, 'r'))
    for lab, text, _ in product_answers(A, B, opf):
        if lab == label:
            res = run_checker(getattr(nd, 'check_' + opname), text, t1, t2)
            if res[0]:
                crit = product_criterion(text, A, B, opf, P)
                if crit:
                    acc.viol('check_' + opname, 'OK although the answer violates the criterion of the product exercise', {'answer': text, 'dfa1': t1, 'dfa2': t2}, observed=crit)


def small_dfa_answers(k):
    for (n, kk) in ((1, k), (2, k)):
        for idx, s in spaces.dfas(n, kk):
            yield s


def t_unary(acc, shard, nshard):
    """check_dfa_complement, check_dfa_reverse, check_dfa_minimal, check_dfa2regexp."""
    import gambatools.notebook_dfa as nd
    import gambatools.notebook as nb
    n = 0
    for (rn, k) in ((1, 1), (2, 1), (1, 2), (2, 2), (3, 1)):
        for ridx, rs in spaces.dfas(rn, k):
            n += 1
            if n % nshard != shard:
                continue
            Q, Sg, d, q0, F = spaces.dfa_parts(rs, 's')
            R = fa.from_dfa_parts(Q, Sg, d, q0, F)
            rtext = dfa_text(Q, Sg, d, q0, F)
            acc.states += 1
            L = 8 if rn <= 2 else 6
            comp = set(spaces.words(Sg, L)) - fa.language(R, L)
            rev = {w[::-1] for w in fa.language(R, L)}
            same = fa.language(R, L)
            ncls = fa.n_classes(R, R.Q)
            allreach = fa.reachable(R) == set(R.Q)
            # --- complement: answers = all DFAs with <= 2 states over the same alphabet (state names as in the reference) + the reference with F flipped
            answers = [(dfa_text(Q, Sg, d, q0, [q for q in Q if q not in F]), None)]
            for s in small_dfa_answers(k):
                answers.append((dfa_text(*spaces.dfa_parts(s, 's')), s))
            for text, s in answers:
                inst = {'checker': 'check_dfa_complement', 'dfa': rtext, 'answer': text}
                rp = {'fn': 'mc.props.c12:one_unary', 'mode': 'plain', 'params': {'checker': 'check_dfa_complement', 'rs': rs, 'answer': text}}
                ok, res = core.lib_call(acc, 'check_dfa_complement', inst, run_checker, nd.check_dfa_complement, text, rtext, repro=rp)
                acc.transitions += 1
                if ok:
                    acc.evals += 1
                    acc.validated += 1
                    if res[0]:
                        X = fa.from_dfa_parts(*spaces.dfa_parts(s, 's')) if s else fa.FA(Q, Sg, R.delta, R.eps, q0, set(Q) - set(F))
                        if set(X.Sigma) != set(Sg) or fa.language(X, L, Sg) != comp:
                            acc.viol('check_dfa_complement', 'OK although the answer does not accept the complement language', inst, repro=rp)
                        else:
                            acc.nontrivial += 1
            # --- minimal: answers = all DFAs with <= 3 states (k=1) / <= 2 states (k=2)
            if allreach:
                for s in itertools.chain(small_dfa_answers(k), (spaces.dfa_spec(3, 1, i) for i in range(spaces.dfa_size(3, 1)) if k == 1 and (i + ridx) % 5 == 0)):
                    text = dfa_text(*spaces.dfa_parts(s, 'q'))
                    X = fa.from_dfa_parts(*spaces.dfa_parts(s, 'q'))
                    inst = {'checker': 'check_dfa_minimal', 'dfa': rtext, 'answer': text}
                    rp = {'fn': 'mc.props.c12:one_unary', 'mode': 'plain', 'params': {'checker': 'check_dfa_minimal', 'rs': rs, 'answer': text}}
                    ok, res = core.lib_call(acc, 'check_dfa_minimal', inst, run_checker, nd.check_dfa_minimal, rtext, text, repro=rp)
                    acc.transitions += 1
                    if ok:
                        acc.evals += 1
                        acc.validated += 1
                        if res[0]:
                            if fa.language(X, L, Sg) != same or len(X.Q) != ncls:
                                acc.viol('check_dfa_minimal', 'OK although the answer is not a minimal DFA for the language', inst, repro=rp, observed={'states': len(X.Q), 'classes': ncls})
                            else:
                                acc.nontrivial += 1
                    for short in (1, 2):
                        # the same exercise with a short length bound: the state count is then the only safeguard
                        ok, res = core.lib_call(acc, 'check_dfa_minimal', dict(inst, length=short), run_checker, nd.check_dfa_minimal, rtext, text, short, repro=rp)
                        acc.transitions += 1
                        if ok and res[0]:
                            acc.evals += 1
                            if fa.language(X, short, Sg) != fa.language(R, short) or len(X.Q) != ncls:
                                acc.viol('check_dfa_minimal', 'OK although the answer is not a minimal DFA for the language', dict(inst, length=short), repro=rp, observed={'states': len(X.Q), 'classes': ncls})
            # --- reverse: answers = reference reverse NFA, its single-edit mutants, all NFA(2,k,<=3)
            from mc.props.c14 import ref_reverse
            rv = ref_reverse(R)
            new = 'q9'
            T = [(p, a, q) for (p, a), S in rv.delta.items() for q in S] + [(new, 'ε', q) for q in rv.eps[('new',)]]
            base = (Q + [new], Sg, T, new, [q0])
            cands = [('reference reverse', base)]
            for i in range(len(T)):
                cands.append(('dropped transition', (base[0], Sg, T[:i] + T[i + 1:], new, [q0])))
            for q in Q:
                cands.append(('other final state', (base[0], Sg, T, new, [q])))
            for idx, s in spaces.nfas(2, k, 2):
                if (idx + ridx) % 3 == 0:
                    cands.append(('small NFA', spaces.nfa_parts(s, 's', 'ε')))
            for label, (aQ, aSg, aT, aq0, aF) in cands:
                text = nfa_text(aQ, aSg, aT, aq0, aF, 'ε')
                X = fa.from_parts(aQ, aSg, aT, aq0, aF, 'ε')
                inst = {'checker': 'check_dfa_reverse', 'dfa': rtext, 'answer_kind': label, 'answer': text}
                rp = {'fn': 'mc.props.c12:one_unary', 'mode': 'plain', 'params': {'checker': 'check_dfa_reverse', 'rs': rs, 'answer': text}}
                ok, res = core.lib_call(acc, 'check_dfa_reverse', inst, run_checker, nd.check_dfa_reverse, rtext, text, L, repro=rp)
                acc.transitions += 1
                if ok:
                    acc.evals += 1
                    acc.validated += 1
                    xl = fa.language(X, L, Sg)
                    if res[0]:
                        if set(aSg) != set(Sg) or xl != rev:
                            acc.viol('check_dfa_reverse', 'OK although the answer does not accept the mirror image of the language', inst, repro=rp)
                        else:
                            acc.nontrivial += 1
                    else:
                        check_feedback_word(acc, 'check_dfa_reverse', inst, rp, res[1], xl, rev, minimal=True)
            # --- dfa2regexp: answers RE(4) in simple syntax + ill-formed strings
            if rn <= 2:
                for idx, r in rx.trees_up_to(4):
                    if not rx.symbols(r) <= set(Sg) and (idx + ridx) % 7:
                        continue
                    text = c13.show_simple(r)
                    rl = {w for w in spaces.words(Sg, 5) if rx.matches(r, w)}
                    inst = {'checker': 'check_dfa2regexp', 'dfa': rtext, 'answer': text}
                    rp = {'fn': 'mc.props.c12:one_unary', 'mode': 'plain', 'params': {'checker': 'check_dfa2regexp', 'rs': rs, 'answer': text}}
                    ok, res = core.lib_call(acc, 'check_dfa2regexp', inst, run_checker, nb.check_dfa2regexp, rtext, text, 5, repro=rp)
                    acc.transitions += 1
                    if ok:
                        acc.evals += 1
                        acc.validated += 1
                        extra = {w for w in spaces.words(sorted(rx.symbols(r) | set(Sg)), 5) if rx.matches(r, w)}
                        if res[0]:
                            if extra != fa.language(R, 5):
                                acc.viol('check_dfa2regexp', 'OK although the expression denotes another language up to the length bound', inst, repro=rp)
                            else:
                                acc.nontrivial += 1
                        else:
                            check_feedback_word(acc, 'check_dfa2regexp', inst, rp, res[1], extra, fa.language(R, 5), minimal=True)
                for bad in ('', '(a', 'a+', '*a', 'a b'):
                    ok, res = core.lib_call(acc, 'check_dfa2regexp', {'dfa': rtext, 'answer': bad}, run_checker, nb.check_dfa2regexp, rtext, bad, 5)
                    acc.transitions += 1


def one_unary(acc, checker, rs, answer):
    import gambatools.notebook_dfa as nd
    import gambatools.notebook as nb
    from gambatools.dfa_algorithms import parse_dfa
    from gambatools.nfa_algorithms import parse_nfa
    from gambatools.regexp_simple_parser import parse_simple_regexp
    rs = tup(rs)
    Q, Sg, d, q0, F = spaces.dfa_parts(rs, 's')
    R = fa.from_dfa_parts(Q, Sg, d, q0, F)
    rtext = dfa_text(Q, Sg, d, q0, F)
    L = 6
    if checker == 'check_dfa_complement':
        res = run_checker(nd.check_dfa_complement, answer, rtext)
        if res[0]:
            X = fa.from_lib_dfa(parse_dfa(answer))
            if set(X.Sigma) != set(Sg) or fa.language(X, L, Sg) != set(spaces.words(Sg, L)) - fa.language(R, L):
                acc.viol(checker, 'OK although the answer does not accept the complement language', {'dfa': rtext, 'answer': answer})
    elif checker == 'check_dfa_minimal':
        res = run_checker(nd.check_dfa_minimal, rtext, answer)
        if res[0]:
            X = fa.from_lib_dfa(parse_dfa(answer))
            if fa.language(X, L, Sg) != fa.language(R, L) or len(X.Q) != fa.n_classes(R, R.Q):
                acc.viol(checker, 'OK although the answer is not a minimal DFA for the language', {'dfa': rtext, 'answer': answer})
    elif checker == 'check_dfa_reverse':
        res = run_checker(nd.check_dfa_reverse, rtext, answer, L)
        if res[0]:
            X = fa.from_lib_nfa(parse_nfa(answer))
            if set(X.Sigma) != set(Sg) or fa.language(X, L, Sg) != {w[::-1] for w in fa.language(R, L)}:
                acc.viol(checker, 'OK although the answer does not accept the mirror image of the language', {'dfa': rtext, 'answer': answer})
    elif checker == 'check_dfa2regexp':
        res = run_checker(nb.check_dfa2regexp, rtext, answer, 5)
        if res[0]:
            r = rx.from_lib(parse_simple_regexp(answer))
            if {w for w in spaces.words(sorted(rx.symbols(r) | set(Sg)), 5) if rx.matches(r, w)} != fa.language(R, 5):
                acc.viol(checker, 'OK although the expression denotes another language up to the length bound', {'dfa': rtext, 'answer': answer})


# ---------------------------------------------------------------- 4. nfa -> dfa
def set_name(S):
    return '{' + ','.join(sorted(S)) + '}'


def nfa2dfa_answers(A, Sg):
    D = fa.determinise(A, Sg)
    names = [set_name(S) for S in D.subsets]
    T = [(names[i], a, names[D.trans[i][a]]) for i in range(len(names)) for a in Sg]
    F = [names[i] for i in D.finals]
    base = (names, T, names[0], F)
    yield 'reference subset automaton', base, True
    for i in range(len(names)):
        F2 = [x for x in F if x != names[i]] if names[i] in F else F + [names[i]]
        yield 'flipped final state', (names, T, names[0], F2), False
    for j, (p, a, q) in enumerate(T):
        for q2 in names:
            if q2 != q:
                yield 'retargeted transition', (names, T[:j] + [(p, a, q2)] + T[j + 1:], names[0], F), False
                break
        yield 'dropped transition (not total)', (names, T[:j] + T[j + 1:], names[0], F), False
        yield 'duplicated transition target (non-deterministic)', (names, T + [(p, a, names[(names.index(q) + 1) % len(names)])], names[0], F), len(names) == 1
    if len(names) > 1:
        yield 'other initial state', (names, T, names[1], F), False
    for p in names:
        for q in names:
            yield 'added epsilon transition', (names, T + [(p, '_', q)], names[0], F), False


def t_nfa2dfa(acc, shard, nshard):
    import gambatools.notebook_nfa2dfa as n2
    n = 0
    for k, t in ((1, None), (2, 3)):
        for idx, s in spaces.nfas(2, k, t):
            n += 1
            if n % nshard != shard:
                continue
            Q, Sg, T, q0, F = spaces.nfa_parts(s, 's', '_')
            A = fa.from_parts(Q, Sg, T, q0, F, '_')
            ntext = nfa_text(Q, Sg, T, q0, F, '_')
            acc.states += 1
            for label, (names, aT, aq0, aF), _ in nfa2dfa_answers(A, Sg):
                text = nfa_text(names, Sg, aT, aq0, aF, '_')
                inst = {'checker': 'check_nfa2dfa', 'nfa': ntext, 'answer_kind': label, 'answer': text}
                rp = {'fn': 'mc.props.c12:one_nfa2dfa', 'mode': 'plain', 'params': {'s': s, 'label': label, 'answer': text}}
                ok, res = core.lib_call(acc, 'check_nfa2dfa', inst, run_checker, n2.check_nfa2dfa, ntext, text, repro=rp)
                acc.transitions += 1
                if not ok:
                    continue
                acc.evals += 1
                acc.validated += 1
                if not res[0] and label != 'correct' and T and len(acc.samples) < 1:
                    acc.sample(dict(inst, verdict='not OK', first_feedback_line=(res[1][:1] if len(res) > 1 and isinstance(res[1], list) else None)))
                if res[0]:
                    crit = nfa2dfa_criterion(names, Sg, aT, aq0, aF, A, Q)
                    if crit:
                        acc.viol('check_nfa2dfa', 'OK although the answer is not a deterministic total automaton over state sets equivalent to the NFA', inst, repro=rp, observed=crit)
                    else:
                        acc.nontrivial += 1


def nfa2dfa_criterion(names, Sg, T, q0, F, A, NQ):
    for nm in names:
        body = nm[1:-1]
        if not (nm.startswith('{') and nm.endswith('}')) or not set(filter(None, body.split(','))) <= set(NQ):
            return 'state {} is not a set of NFA states'.format(nm)
    for (p, a, q) in T:
        if a not in Sg:
            return 'epsilon (or foreign) transition {} -{}-> {}'.format(p, a, q)
    for p in names:
        for a in Sg:
            tg = {q for (p1, a1, q) in T if p1 == p and a1 == a}
            if len(tg) != 1:
                return 'state {} has {} targets for {}'.format(p, len(tg), a)
    X = fa.from_parts(names, Sg, T, q0, F, '_')
    w = fa.equivalent(X, A, sigma=Sg)
    if w is not None:
        return 'language differs on ' + (w or 'ε')
    return None


def one_nfa2dfa(acc, s, label, answer):
    import gambatools.notebook_nfa2dfa as n2
    s = tup(s)
    Q, Sg, T, q0, F = spaces.nfa_parts(s, 's', '_')
    A = fa.from_parts(Q, Sg, T, q0, F, '_')
    ntext = nfa_text(Q, Sg, T, q0, F, '_')
    for lab, (names, aT, aq0, aF), _ in nfa2dfa_answers(A, Sg):
        text = nfa_text(names, Sg, aT, aq0, aF, '_')
        if text == answer:
            res = run_checker(n2.check_nfa2dfa, ntext, text)
            if res[0]:
                crit = nfa2dfa_criterion(names, Sg, aT, aq0, aF, A, Q)
                if crit:
                    acc.viol('check_nfa2dfa', 'OK although the answer is not a deterministic total automaton over state sets equivalent to the NFA', {'nfa': ntext, 'answer': text}, observed=crit)
            return


# ---------------------------------------------------------------- 5. grammar checkers
def expressible(g):
    g = cfg.start_first(g)
    if not cfg.normalise_simple(g):
        return None
    lhs = {l for l, _ in g[3]}
    terms = tuple(sorted({x for _, rhs in g[3] for x in rhs if x not in g[1]}))
    return ('cfg', tuple(sorted(lhs)), terms, g[3], g[4])


def chomsky_requirement(phase, g, start):
    """The stated requirement of each phase (cumulative), weakest reading."""
    from mc.props import c08
    if phase >= 1 and g[4] != start:
        return 'start variable is not ' + start
    if phase >= 2 and c08.post_no_eps(g):
        return c08.post_no_eps(g)
    if phase >= 3 and c08.post_no_unit(g):
        return c08.post_no_unit(g)
    if phase >= 4 and c08.post_len2(g):
        return c08.post_len2(g)
    if phase >= 5:
        Vs = set(g[1])
        for l, rhs in g[3]:
            if not (len(rhs) == 0 or (len(rhs) == 1 and rhs[0] not in Vs) or (len(rhs) == 2 and rhs[0] in Vs and rhs[1] in Vs)):
                return 'rule {} -> {} is not in Chomsky format'.format(l, ''.join(rhs))
    return None


def t_chomsky(acc, shard, nshard, stride, offset):
    import gambatools.notebook_chomsky as nc
    from gambatools.notebook_chomsky import cfg_apply_chomsky
    from gambatools.cfg_algorithms import cfg_print_simple
    length = 4
    n = 0
    for plus in (False, True):
        for idx, g0 in cfg.cfg2(plus):
            if idx % stride != offset % stride:
                continue
            n += 1
            if n % nshard != shard:
                continue
            g = expressible(g0)
            if g is None or cfg.nonempty_word_variables(g) != set(g[1]):
                continue
            text = c13.grammar_text(g)
            lang, _ = cfg.language(g, length)
            acc.states += 1
            # candidate answers: the library's own phase outputs (phases 0..5), each offered for every phase
            outs = {0: g}
            for p in range(1, 6):
                try:
                    outs[p] = cfg.from_lib(cfg_apply_chomsky(cfg.to_lib(g), p, 'T'))
                except Exception:
                    pass
            cands = [('phase %d output' % p, o) for p, o in outs.items()]
            # mutants of the final answer: drop a rule, swap the start variable
            if 5 in outs:
                o = outs[5]
                for i in range(min(len(o[3]), 4)):
                    cands.append(('phase 5 output with rule %d dropped' % i, ('cfg', o[1], o[2], o[3][:i] + o[3][i + 1:], o[4])))
            for label, a in cands:
                a2 = expressible(a) if a is not g else g
                if a2 is None:
                    continue
                try:
                    atext = c13.grammar_text(a2)
                except Exception:
                    continue
                if not all(len(v) == 1 and v.isupper() for v in a2[1]):
                    continue
                alang, _ = cfg.language(a2, length)
                for phase in range(0, 6):
                    inst = {'checker': 'cfg_check_chomsky', 'cfg': text, 'answer_kind': label, 'answer': atext, 'phase': phase}
                    rp = {'fn': 'mc.props.c12:one_chomsky', 'mode': 'plain', 'params': {'g': g, 'a': a2, 'phase': phase}}
                    ok, res = core.lib_call(acc, 'cfg_check_chomsky', inst, run_checker, nc.cfg_check_chomsky, text, atext, phase, 'T', length, repro=rp)
                    acc.transitions += 1
                    if not ok:
                        continue
                    acc.evals += 1
                    acc.validated += 1
                    if res[0]:
                        judge_chomsky(acc, inst, rp, a2, alang, lang, phase)
                    else:
                        check_feedback_word(acc, 'cfg_check_chomsky', inst, rp, res[1], alang, lang, minimal=True)


def judge_chomsky(acc, inst, rp, a2, alang, lang, phase):
    if alang != lang:
        acc.viol('cfg_check_chomsky', 'OK although the answer grammar has a different language up to the length bound', inst, repro=rp, observed=sorted(alang ^ lang)[:3])
        return
    msg = chomsky_requirement(phase, a2, 'T')
    if msg:
        acc.viol('cfg_check_chomsky', 'OK although the requirement of the phase does not hold', inst, repro=rp, observed=msg)
    else:
        acc.nontrivial += 1


def one_chomsky(acc, g, a, phase):
    import gambatools.notebook_chomsky as nc
    g, a = tup(g), tup(a)
    res = run_checker(nc.cfg_check_chomsky, c13.grammar_text(g), c13.grammar_text(a), phase, 'T', 4)
    if res[0]:
        judge_chomsky(acc, {'cfg': c13.grammar_text(g), 'answer': c13.grammar_text(a), 'phase': phase}, None, a, cfg.language(a, 4)[0], cfg.language(g, 4)[0], phase)


def cyk_table_text(rows):
    return '\n'.join('  '.join('{' + ','.join(sorted(c)) + '}' for c in row) for row in rows)


def t_cyk(acc, shard, nshard, maxrules=4):
    import gambatools.notebook_cfg as ncfg
    n = 0
    for idx, g0 in cfg.cnf3(maxrules):
        n += 1
        if n % nshard != shard:
            continue
        g = expressible(g0)
        if g is None:
            continue
        text = c13.grammar_text(g)
        lang, _ = cfg.language(g, 3)
        acc.states += 1
        ws = [w for w in spaces.words(sorted(g[2]), 3) if w]
        for w in ws[:: (1 if len(ws) <= 6 else 2)]:
            D = cfg.derives_table(g, w)
            m = len(w)
            # rows[r] = cells of span r+1 ... printed top row = longest span; the checker wants line i (1-based from the top) to have i entries
            cell = lambda i, j: {A for A in g[1] if (i, j + 1) in D[A]}
            lines = []
            for r in range(m):            # r = span - 1, bottom line has m entries
                lines.append([cell(j - r, j) for j in range(r, m)])
            rows = list(reversed(lines))
            cands = [('correct table', rows, True)]
            for ri, row in enumerate(rows):
                for ci in range(len(row)):
                    for X in g[1]:
                        new = set(row[ci]) ^ {X}
                        r2 = [list(map(set, rr)) for rr in rows]
                        r2[ri][ci] = new
                        cands.append(('one cell changed', r2, False))      # every variable added to / removed from every cell
            if m >= 2:
                cands.append(('top row dropped', rows[1:], False))
                cands.append(('bottom row dropped', rows[:-1], False))
                cands.append(('row duplicated', rows + [rows[-1]], False))
                cands.append(('entry added to a row', [rows[0] + [set()]] + rows[1:], False))
            for label, rws, right in cands:
                atext = cyk_table_text(rws)
                inst = {'checker': 'check_cyk_matrix', 'cfg': text, 'word': w, 'answer_kind': label, 'answer': atext}
                rp = {'fn': 'mc.props.c12:one_cyk', 'mode': 'plain', 'params': {'g': g, 'word': w, 'answer': atext}}
                ok, res = core.lib_call(acc, 'check_cyk_matrix', inst, run_checker, ncfg.check_cyk_matrix, text, w, atext, repro=rp)
                acc.transitions += 1
                if not ok:
                    continue
                acc.evals += 1
                acc.validated += 1
                if res[0]:
                    if [[set(c) for c in rr] for rr in rws] != [[set(c) for c in rr] for rr in rows]:
                        acc.viol('check_cyk_matrix', 'OK although the table is not the CYK table of the word', inst, repro=rp)
                    else:
                        acc.nontrivial += 1


def one_cyk(acc, g, word, answer):
    import gambatools.notebook_cfg as ncfg
    g = tup(g)
    res = run_checker(ncfg.check_cyk_matrix, c13.grammar_text(g), word, answer)
    if res[0]:
        D = cfg.derives_table(g, word)
        m = len(word)
        rows = list(reversed([[{A for A in g[1] if (j - r, j + 1) in D[A]} for j in range(r, m)] for r in range(m)]))
        if answer.strip() != cyk_table_text(rows).strip():
            acc.viol('check_cyk_matrix', 'OK although the table is not the CYK table of the word', {'cfg': c13.grammar_text(g), 'word': word, 'answer': answer})


def derivations(g, w, dtype, limit=6):
    """Reference derivations of a type (oracle): BFS over sentential forms."""
    _, V, Sg, rules, S = g
    Vs = set(V)
    out = []
    todo = collections.deque([[[S]]])
    while todo and len(out) < limit:
        der = todo.popleft()
        x = der[-1]
        if x == list(w):
            out.append(der)
            continue
        if len(der) > 2 * len(w) + 1:
            continue
        pos = [i for i, s in enumerate(x) if s in Vs]
        if not pos:
            continue
        if dtype == 'leftmost':
            pos = pos[:1]
        elif dtype == 'rightmost':
            pos = pos[-1:]
        for i in pos:
            for (l, rhs) in rules:
                if l == x[i]:
                    y = x[:i] + list(rhs) + x[i + 1:]
                    if sum(1 for s in y if s not in Vs) <= len(w) and len(y) <= len(w) + 1:
                        todo.append(der + [y])
    return out


def t_derivation(acc, shard, nshard, maxrules=4):
    import gambatools.notebook_cfg as ncfg
    n = 0
    for idx, g0 in cfg.cnf3(maxrules):
        n += 1
        if n % nshard != shard:
            continue
        g = expressible(g0)
        if g is None:
            continue
        text = c13.grammar_text(g)
        lang, _ = cfg.language(g, 3)
        acc.states += 1
        for w in sorted(lang, key=lambda x: (len(x), x)):
            if not w:
                continue
            pool = []
            for dtype in ('leftmost', 'rightmost', 'any'):
                for der in derivations(g, w, dtype, 3):
                    pool.append(der)
            uniq = []
            for der in pool:
                if der not in uniq:
                    uniq.append(der)
            cands = list(uniq)
            for der in uniq[:3]:
                for i in range(1, len(der)):
                    cands.append(der[:i] + der[i + 1:])                         # a step skipped
                if len(der) > 1:
                    cands.append(der[1:])                                        # does not start with S
                    cands.append(der[:-1])                                       # does not end with the word
                    cands.append([der[0]] + [list(reversed(e)) for e in der[1:]])  # mirrored
            for der in cands:
                dtext = ' => '.join(''.join(e) for e in der)
                for dtype in ('leftmost', 'rightmost', 'any'):
                    inst = {'checker': 'check_cfg_derivation', 'cfg': text, 'word': w, 'derivation': dtext, 'type': dtype}
                    rp = {'fn': 'mc.props.c12:one_derivation', 'mode': 'plain', 'params': {'g': g, 'word': w, 'derivation': dtext, 'dtype': dtype}}
                    ok, res = core.lib_call(acc, 'check_cfg_derivation', inst, run_checker, ncfg.check_cfg_derivation, text, dtext, w, dtype, repro=rp)
                    acc.transitions += 1
                    if not ok:
                        continue
                    acc.evals += 1
                    acc.validated += 1
                    if res[0]:
                        msg = c15.valid_derivation(g, w, der, dtype) if der else 'empty'
                        if msg:
                            acc.viol('check_cfg_derivation', 'OK although the derivation is not a valid {} derivation of the word'.format(dtype), inst, repro=rp, observed=msg)
                        else:
                            acc.nontrivial += 1


def one_derivation(acc, g, word, derivation, dtype):
    import gambatools.notebook_cfg as ncfg
    g = tup(g)
    res = run_checker(ncfg.check_cfg_derivation, c13.grammar_text(g), derivation, word, dtype)
    if res[0]:
        der = [list(e.strip()) for e in derivation.split('=>')]
        msg = c15.valid_derivation(g, word, der, dtype)
        if msg:
            acc.viol('check_cfg_derivation', 'OK although the derivation is not a valid {} derivation of the word'.format(dtype), {'cfg': c13.grammar_text(g), 'derivation': derivation, 'word': word}, observed=msg)


# ---------------------------------------------------------------- 6. small direct checkers and automata_checker
def t_direct(acc):
    import gambatools.notebook as nb
    import gambatools.automata_checker as ac
    from gambatools.dfa_algorithms import parse_dfa
    # check_max_states
    for (n, k) in ((1, 1), (2, 1), (3, 1)):
        D = spaces.build_dfa(spaces.dfa_spec(n, k, 0))
        for m in range(0, 5):
            ok, fb = core.lib_call(acc, 'check_max_states', {'states': n, 'max_states': m}, nb.check_max_states, D, m)
            acc.transitions += 1
            if ok:
                acc.evals += 1
                if (fb == []) and (0 < m < n):
                    acc.viol('check_max_states', 'no feedback although the maximum number of states is exceeded', {'states': n, 'max_states': m})
    # check_number_of_nfa_states
    for idx, s in spaces.nfas(2, 1, 1):
        text = nfa_text(*spaces.nfa_parts(s, 's', '_'), '_')
        for cnt in (1, 2, 3):
            ok, res = core.lib_call(acc, 'check_number_of_nfa_states', {'nfa': text, 'count': cnt}, run_checker, nb.check_number_of_nfa_states, text, cnt)
            acc.transitions += 1
            if ok:
                acc.evals += 1
                if res[0] and cnt != 2:
                    acc.viol('check_number_of_nfa_states', 'OK although the number of states differs', {'nfa': text, 'count': cnt})
    # automata_checker: tuples
    refs = reference_word_sets(3)
    for (kind, f, gen) in (('dfa', ac.check_dfa_for_given_language, [(s, spaces.dfa_parts(s)) for _, s in spaces.dfas(2, 2)]),
                           ('nfa', ac.check_nfa_for_given_language, [(s, spaces.nfa_parts(s, 's', '_')) for i, s in spaces.nfas(2, 1, 4) if i % 3 == 0])):
        for i, (s, parts) in enumerate(gen):
            if kind == 'dfa':
                Q, Sg, d, q0, F = parts
                trans = [(p, a, q) for (p, a), q in d.items()]
                A = fa.from_dfa_parts(Q, Sg, d, q0, F)
            else:
                Q, Sg, T, q0, F = parts
                trans = list(T)
                A = fa.from_parts(Q, Sg, T, q0, F, '_')
            alang = fa.language(A, 3)
            acc.states += 1
            for j, ref in enumerate(refs):
                if len(alang ^ ref) > 2 and (i + j) % 13:
                    continue
                language = ' '.join((w or 'ε') for w in sorted(ref))
                inst = {'checker': f.__name__, 'states': Q, 'transitions': trans, 'initial': q0, 'final': F, 'language': language}
                ok, res = core.lib_call(acc, f.__name__, inst, f, set(Q), list(trans), {q0}, set(F), language, 3)
                acc.transitions += 1
                if not ok:
                    continue
                acc.evals += 1
                acc.validated += 1
                if not isinstance(res, dict) or 'correct' not in res:
                    acc.viol(f.__name__, 'result is not a verdict dictionary', inst, observed=res)
                    continue
                if res['correct']:
                    if alang != ref:
                        acc.viol(f.__name__, 'correct=True although the accepted words differ from the list', inst, observed=sorted(alang ^ ref)[:3])
                    else:
                        acc.nontrivial += 1
                else:
                    fbk = res.get('feedback', '')
                    m = re.search(r"word '([^']*)' (should not be accepted|is not accepted)", fbk)
                    if m:
                        w = '' if m.group(1) == 'ε' else m.group(1)
                        good = (w in alang and w not in ref) if m.group(2) == 'should not be accepted' else (w in ref and w not in alang)
                        if not good:
                            acc.viol(f.__name__, 'reported counterexample word is not a genuine difference with that polarity', inst, observed=fbk)


# ---------------------------------------------------------------- plan
def plan(tier, seed):
    tasks = []
    q = tier == 'quick'
    P = 'mc.props.c12:'

    def add(fn, nshard, **kw):
        tasks.extend(('plain', P + fn, dict(kw, shard=s, nshard=nshard)) for s in range(nshard))

    add('t_compare', 8)
    for kind, ns in (('dfa', 16), ('nfa', 16), ('regexp', 8), ('cfg', 8), ('pda', 4), ('tm', 4)):
        add('t_from_words', ns, kind=kind, length=3 if kind in ('cfg', 'pda', 'tm') else 4, size='s' if q else 'm')
    add('t_from_file', 8, length=4)
    add('t_accepts_rejects', 16)
    add('t_products', 32, stride=4 if q else 1)
    add('t_unary', 32)
    add('t_nfa2dfa', 16)
    add('t_chomsky', 32, stride=64 if q else 8, offset=seed)
    add('t_cyk', 16, maxrules=4 if q else 5)
    add('t_derivation', 16, maxrules=3 if q else 4)
    tasks.append(('plain', P + 't_direct', {}))
    return {'tasks': tasks,
            'bounds': {'answers': 'language checkers: all DFA(n<=2,k<=2) / NFA(2,1,{}), NFA(2,2,<=2) / RE({}) / strided CFG2 / PDA(1,1,1,<=3) with finite closures / TM(1,2) answers x reference languages of DFA(2,k) within 2 words of the answer (+ stride of the rest) x max_states 0,1,2; products: DFA(2,k)^2 {} x (full product, reachable product, every single accepting flip, retargeted transitions, other initial state); complement / minimal / reverse / dfa2regexp: references DFA(n<=2,k<=2), DFA(3,1) x all small answers + mutants; nfa2dfa: NFA(2,1), NFA(2,2,<=3) x reference + single-edit mutants incl. epsilon moves; Chomsky: strided CFG2/CFG2+ x own phase outputs offered for every phase + mutants; CYK: CNF(3) with <= {} rules x words <= 3 x right table, every variable added to / removed from every single cell, rows dropped / added; derivations: reference derivations of each type + mutants x 3 types'.format(
                '<=4' if q else 'all', 4 if q else 5, 'stride 1/4' if q else 'all', 4 if q else 5)},
            'exhaustive': True,
            'rule': 'for every exercise checker: every instance x every answer of the listed answer spaces; the real checker is called with stdout captured; OK must imply the criterion evaluated by oracle code; every quoted counterexample word must be a genuine difference with the right polarity (minimal length for the language comparison); non-trivial = OK verdicts on answers that satisfy the criterion',
            'assumptions': ['criteria are the weakest reading of each exercise (complement / reverse: language only; Warning hints are advice)', 'only OK => criterion is demanded; the converse is C13']}
