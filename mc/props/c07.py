"""C07 - CYK membership for arbitrary grammars; CYK table cells for CNF grammars."""
from mc import core, spaces
from mc.oracles import cfg

WORDS = {L: list(spaces.words(['a', 'b'], L)) for L in (2, 3, 4, 5, 6)}


def tup(x):
    return tuple(tup(y) for y in x) if isinstance(x, list) else x


def check_accepts(acc, spec, L, morph=False, prev=None, epsilon='ε'):
    from gambatools.cfg_algorithms import cfg_accepts_word
    rp = {'fn': 'mc.props.c07:one_accepts', 'mode': 'plain', 'params': {'spec': spec, 'L': L, 'prev': prev, 'morph': morph, 'epsilon': epsilon}}
    inst = {'grammar': cfg.show(spec), 'start': spec[4]}
    if prev is not None:
        inst['queried_before_in_the_same_process'] = cfg.show(prev) + ' (start {})'.format(prev[4])
    G = cfg.morph(spec) if morph else cfg.to_lib(spec, epsilon)
    words_L = list(spaces.words(list(spec[2]), L)) if list(spec[2]) != ['a', 'b'] else WORDS[L]
    before = cfg.from_lib(G)
    if any(len(rhs) >= 5 for _, rhs in spec[3]):
        L = max(L, 5)          # a rule with five or more symbols shows only on words of that length
        words_L = list(spaces.words(list(spec[2]), L)) if list(spec[2]) != ['a', 'b'] else WORDS[L]
    lang, _ = cfg.language(spec, L)
    acc.states += 1
    import zlib
    verbose = (not morph) and zlib.crc32(repr(spec).encode()) % 4 == 0      # a function of the instance, so a replay asks the same way
    for w in words_L:
        if verbose:
            # the diagnostic keyword: same question, more output
            with core.captured_stdout():
                ok, got = core.lib_call(acc, 'cfg_accepts_word', dict(inst, word=w, verbose=True), cfg_accepts_word, G, w, True, repro=rp)
        else:
            ok, got = core.lib_call(acc, 'cfg_accepts_word', dict(inst, word=w), cfg_accepts_word, G, w, repro=rp)
        acc.transitions += 1
        if not ok:
            continue
        acc.evals += 1
        acc.validated += 1
        exp = w in lang
        if got is not exp:
            acc.viol('cfg_accepts_word', 'verdict differs from derivability from the start variable', dict(inst, word=w), repro=rp, observed=got, expected=exp)
    if 0 < len(lang) < len(words_L):
        acc.nontrivial += 1
        if len(spec[3]) >= 3:
            acc.sample({'grammar': cfg.show(spec), 'language_up_to_%d' % L: sorted(lang, key=lambda x: (len(x), x))[:8]})
    try:
        if cfg.from_lib(G) != before:
            acc.viol('cfg_accepts_word', 'argument grammar was modified', inst, repro=rp)
    except cfg.Malformed as e:
        acc.viol('cfg_accepts_word', 'argument grammar was modified', inst, repro=rp, observed=str(e))


def one_accepts(acc, spec, L, prev=None, morph=False, epsilon='ε'):
    if morph:
        cfg._LIVE.clear()
    if prev is not None:
        check_accepts(core.Acc(), tup(prev), L, morph)
    check_accepts(acc, tup(spec), L, morph, tup(prev) if prev is not None else None, epsilon)


def check_cyk(acc, spec, L, multi=False):
    if multi:
        spec = cfg.rename(spec, cfg.MULTI)
    from gambatools.cfg_algorithms import cfg_cyk_matrix, cfg_accepts_word
    rp = {'fn': 'mc.props.c07:one_cyk', 'mode': 'plain', 'params': {'spec': spec, 'L': L}}
    inst = {'grammar': cfg.show(spec), 'variables': list(spec[1])}
    G = cfg.to_lib(spec)
    acc.states += 1
    nontriv = False
    for w in WORDS[L]:
        if not w:
            continue
        ok, X = core.lib_call(acc, 'cfg_cyk_matrix', dict(inst, word=w), cfg_cyk_matrix, G, w, repro=rp)
        acc.transitions += 1
        if not ok:
            continue
        D = cfg.derives_table(spec, w)
        with core.inspecting(acc, 'cfg_cyk_matrix', dict(inst, word=w), repro=rp):
            for i in range(len(w)):
                for j in range(i, len(w)):
                    exp = {A for A in spec[1] if (i, j + 1) in D[A]}
                    got = X[i, j]
                    acc.evals += 1
                    acc.validated += 1
                    if len(exp) >= 2 and j > i:
                        nontriv = True
                    if set(map(str, got)) != exp or not isinstance(got, (set, frozenset)):
                        acc.viol('cfg_cyk_matrix', 'table cell differs from the set of variables deriving the subword', dict(inst, word=w, cell=[i, j]), repro=rp, observed=got, expected=exp)
                        break
    if nontriv:
        acc.nontrivial += 1
        acc.sample({'cnf_grammar': cfg.show(spec), 'words_up_to': L})


def one_cyk(acc, spec, L):
    check_cyk(acc, tup(spec), L)


def t_accepts(acc, space, L, shard, nshard, stride=1, offset=0):
    gen = cfg.cfg2(space == 'cfg2+')
    cfg._LIVE.clear()
    for idx, spec in gen:
        if idx % stride == offset % stride and (idx // stride) % nshard == shard:
            check_accepts(acc, spec, L)
            # the same rules with the other variable as start variable, queried right afterwards in the same process
            alt = ('cfg', spec[1], spec[2], spec[3], 'A')
            if (idx // stride) % 4 == 0:
                check_accepts(acc, alt, L, prev=spec)
            if (idx // stride) % 8 == 1:
                check_accepts(acc, spec, L, morph=True)
                check_accepts(acc, alt, L, morph=True, prev=spec)
            if (idx // stride) % 8 == 2:
                check_accepts(acc, cfg.rename(spec, cfg.MULTI), L)                       # multi-character variable names X, XX, XS
            if (idx // stride) % 8 == 3:
                check_accepts(acc, cfg.rename(spec, None, cfg.EPS_TERMINAL), L, epsilon='e')    # the character ε as a terminal


def t_big(acc, L):
    for v in (24, 25, 26, 27, 28):
        check_accepts(acc, cfg.cfg_big(v), L)


def t_cyk(acc, L, shard, nshard, maxrules=5):
    for idx, spec in cfg.cnf3(maxrules):
        if idx % nshard == shard:
            check_cyk(acc, spec, L)
            if idx % 4 == 1:
                check_cyk(acc, spec, min(L, 3), multi=True)


def plan(tier, seed):
    tasks = []
    P = 'mc.props.c07:'
    if tier == 'quick':
        tasks += [('plain', P + 't_accepts', {'space': 'cfg2', 'L': 3, 'shard': s, 'nshard': 32, 'stride': 4, 'offset': seed}) for s in range(32)]
        tasks += [('plain', P + 't_accepts', {'space': 'cfg2+', 'L': 3, 'shard': s, 'nshard': 16, 'stride': 16, 'offset': seed}) for s in range(16)]
        tasks += [('plain', P + 't_cyk', {'L': 4, 'shard': s, 'nshard': 32}) for s in range(32)]
        bounds = 'CFG2 stride 1/4 x words <= 3; CFG2+ stride 1/16 x words <= 3; CFGbig(24..28); CNF(3) (<= 5 rules, 15 078 grammars) x words <= 4 x all cells'
    else:
        tasks += [('plain', P + 't_accepts', {'space': 'cfg2', 'L': 4, 'shard': s, 'nshard': 128}) for s in range(128)]
        tasks += [('plain', P + 't_accepts', {'space': 'cfg2+', 'L': 4, 'shard': s, 'nshard': 128}) for s in range(128)]
        tasks += [('plain', P + 't_cyk', {'L': 5, 'shard': s, 'nshard': 64}) for s in range(64)]
        tasks += [('plain', P + 't_cyk', {'L': 3, 'shard': s, 'nshard': 64, 'maxrules': 6}) for s in range(64)]
        bounds = 'CFG2 (53 592) and CFG2+ (53 240) x words <= 4; CFGbig(24..28); CNF(3) <= 5 rules x words <= 5 x all cells; CNF(3) <= 6 rules x words <= 3'
    tasks.append(('plain', P + 't_big', {'L': 3}))
    return {'tasks': tasks, 'bounds': {'spaces': bounds}, 'exhaustive': True,
            'rule': 'every grammar of the space x every word over {a,b} up to L (membership vs least-fixpoint language); every CNF grammar x every non-empty word x every cell i<=j (vs span fixpoint); non-trivial = language neither empty nor everything / some cell of a span >= 2 holds >= 2 variables',
            'assumptions': ['cells outside 0 <= i <= j < |w| are ignored (the table is a defaultdict)', 'one grammar in four is queried a second time with the other variable as start variable (same rule list) and one in eight through a live CFG object rewritten in place (detects conversion caches keyed on too little)']}
