"""C14 - DFA closure constructions realise the language operations; finite-language helpers = set algebra."""
import collections
import itertools

from mc import core, spaces
from mc.oracles import fa
from mc.props import common


def lib():
    import gambatools.dfa_algorithms as m
    return m


# ---------------------------------------------------------------- reference constructions (oracle code)
def ref_product(A, B, op):
    Q = [(p, q) for p in A.Q for q in B.Q]
    d = collections.defaultdict(set)
    for (p, q) in Q:
        for a in A.Sigma:
            d[(p, q), a].add((fa.dfa_step(A, p, a), fa.dfa_step(B, q, a)))
    F = {(p, q) for (p, q) in Q if op(p in A.F, q in B.F)}
    return fa.FA(Q, A.Sigma, d, collections.defaultdict(set), (A.q0, B.q0), F)


OPS = {'dfa_union': lambda x, y: x or y, 'dfa_intersection': lambda x, y: x and y, 'dfa_symmetric_difference': lambda x, y: x != y}


def ref_complement(A):
    return fa.FA(A.Q, A.Sigma, A.delta, A.eps, A.q0, set(A.Q) - A.F)


def ref_reverse(A):
    d = collections.defaultdict(set)
    for (q, a), R in A.delta.items():
        for r in R:
            d[r, a].add(q)
    e = collections.defaultdict(set)
    new = ('new',)
    e[new] = set(A.F)
    return fa.FA(list(A.Q) + [new], A.Sigma, d, e, new, {A.q0})


def ref_no_prefix(A):
    """words of L with no proper prefix in L: once an accepting state has been visited every extension dies."""
    dead = ('dead',)
    d = collections.defaultdict(set)
    for q in A.Q:
        for a in A.Sigma:
            d[q, a].add(dead if q in A.F else fa.dfa_step(A, q, a))
    for a in A.Sigma:
        d[dead, a].add(dead)
    return fa.FA(list(A.Q) + [dead], A.Sigma, d, collections.defaultdict(set), A.q0, set(A.F))


def ref_no_extend(A):
    """words of L that are not a proper prefix of a word of L: accepting states from which no accepting
    state is reachable by a non-empty word."""
    def reach1(q):
        seen = set()
        todo = [fa.dfa_step(A, q, a) for a in A.Sigma]
        while todo:
            r = todo.pop()
            if r not in seen:
                seen.add(r)
                todo.extend(fa.dfa_step(A, r, a) for a in A.Sigma)
        return seen
    F = {q for q in A.F if not (reach1(q) & A.F)}
    return fa.FA(A.Q, A.Sigma, A.delta, A.eps, A.q0, F)


# ---------------------------------------------------------------- checks
def check_pair(acc, s1, s2, sch1='s', sch2='r'):
    m = lib()
    A = common.ref_of_dfa_spec(s1, sch1)
    B = common.ref_of_dfa_spec(s2, sch2)
    acc.states += 1
    for name, op in OPS.items():
        rp = {'fn': 'mc.props.c14:one_pair', 'mode': 'plain', 'params': {'s1': s1, 's2': s2, 'sch1': sch1, 'sch2': sch2}}
        inst = {'D1': s1, 'D2': s2, 'names': [sch1, sch2], 'op': name}
        D1 = spaces.build_dfa(s1, sch1)
        D2 = spaces.build_dfa(s2, sch2)
        ok, D = core.lib_call(acc, name, inst, getattr(m, name), D1, D2, repro=rp)
        acc.transitions += 1
        if not ok:
            continue
        acc.evals += 1
        R = common.lib_dfa_to_ref(acc, name, inst, D, rp)
        if R is None:
            continue
        if set(D.Sigma) != set(A.Sigma):
            acc.viol(name, 'alphabet differs from the operands alphabet', inst, repro=rp, observed=sorted(D.Sigma))
            continue
        common.expect_equiv(acc, name, inst, R, ref_product(A, B, op), rp, sigma=A.Sigma)
    la = fa.equivalent(A, B)
    if la is not None:
        acc.nontrivial += 1
        if s1[1] >= 2:
            acc.sample({'D1': spaces.dfa_parts(s1, sch1), 'D2': spaces.dfa_parts(s2, sch2), 'shortest_word_in_symmetric_difference': la})


def one_pair(acc, s1, s2, sch1='s', sch2='r'):
    def tl(x):
        return tuple(tl(y) for y in x) if isinstance(x, list) else x
    check_pair(acc, tl(s1), tl(s2), sch1, sch2)


UNARY = {
    'dfa_complement': (ref_complement, 'dfa'),
    'dfa_reverse': (ref_reverse, 'nfa'),
    'dfa_no_prefix': (ref_no_prefix, 'nfa'),
    'dfa_no_extend': (ref_no_extend, 'dfa'),
    'dfa_remove_unreachable_states': (lambda A: A, 'dfa'),
}


def check_unary(acc, spec, scheme='s'):
    m = lib()
    A = common.ref_of_dfa_spec(spec, scheme)
    acc.states += 1
    rp = {'fn': 'mc.props.c14:one_unary', 'mode': 'plain', 'params': {'spec': spec, 'scheme': scheme}}
    for name, (ref, kind) in UNARY.items():
        inst = {'dfa': spec, 'scheme': scheme, 'op': name}
        D = spaces.build_dfa(spec, scheme)
        ok, X = core.lib_call(acc, name, inst, getattr(m, name), D, repro=rp)
        acc.transitions += 1
        if not ok:
            continue
        acc.evals += 1
        R = common.lib_dfa_to_ref(acc, name, inst, X, rp) if kind == 'dfa' else common.lib_nfa_to_ref(acc, name, inst, X, rp)
        if R is None:
            continue
        if set(X.Sigma) != set(A.Sigma):
            acc.viol(name, 'alphabet differs from the input alphabet', inst, repro=rp, observed=sorted(X.Sigma))
            continue
        common.expect_equiv(acc, name, inst, R, ref(A), rp, sigma=A.Sigma)
        if name == 'dfa_remove_unreachable_states' and fa.reachable(R) != set(R.Q):
            acc.viol(name, 'result still has unreachable states', inst, repro=rp, observed=sorted(set(R.Q) - fa.reachable(R)))
    if fa.reachable(A) != set(A.Q) or (0 < len(A.F) < len(A.Q)):
        acc.nontrivial += 1


def one_unary(acc, spec, scheme='s'):
    check_unary(acc, spec, scheme)


def check_total(acc, spec, mask, scheme='s'):
    if spec[1] == 2 and mask % 3 == 1:
        scheme = 'f'        # states q9, q10: a fresh-name generator must not hand out an existing name
    if spec[1] == 2 and mask % 3 == 2:
        scheme = 'H'        # states trap2, q2: numbered names with a gap below them
    """Partial DFAs: the transitions selected by `mask` are removed from a total delta."""
    m = lib()
    from gambatools.dfa import DFA
    Q, Sg, delta, q0, F = spaces.dfa_parts(spec, scheme)
    keys = sorted(delta)
    part = {k: delta[k] for i, k in enumerate(keys) if not (mask >> i & 1)}
    part = dict(spaces.dorder(list(part.items()), lambda k: (Q.index(k[0]), Sg.index(k[1]))))
    A = fa.from_dfa_parts(Q, Sg, part, q0, F)        # missing transitions: no run, i.e. reject
    acc.states += 1
    if mask:
        acc.nontrivial += 1
    rp = {'fn': 'mc.props.c14:one_total', 'mode': 'plain', 'params': {'spec': spec, 'mask': mask, 'scheme': scheme}}
    for name in ('dfa_make_total', 'dfa_make_total_in_place'):
        inst = {'dfa': spec, 'removed_transitions': [list(k) for i, k in enumerate(keys) if mask >> i & 1], 'op': name}
        D = DFA(set(Q), set(Sg), dict(part), q0, set(F), check_validity=False)
        before = common.snap_dfa(D)
        ok, X = core.lib_call(acc, name, inst, getattr(m, name), D, repro=rp)
        acc.transitions += 1
        if not ok:
            continue
        acc.evals += 1
        if name.endswith('in_place'):
            X = D
        elif common.snap_dfa(D) != before:
            acc.viol(name, 'input DFA was modified', inst, repro=rp)
        R = common.lib_dfa_to_ref(acc, name, inst, X, rp, total=True)
        if R is None:
            continue
        if set(X.Sigma) != set(Sg):
            acc.viol(name, 'alphabet changed', inst, repro=rp)
            continue
        if not common.expect_equiv(acc, name, inst, R, A, rp, sigma=Sg):
            continue
        if name.endswith('in_place') and mask:
            # chained: the completed object (its dict grew at the end) is the operand of every unary construction
            Rt = fa.from_lib_dfa(X, total=True)
            for name2, (ref, kind) in UNARY.items():
                inst2 = dict(inst, op='dfa_make_total_in_place then ' + name2)
                ok, Y = core.lib_call(acc, name2, inst2, getattr(m, name2), X, repro=rp)
                acc.transitions += 1
                if not ok:
                    continue
                acc.evals += 1
                R2 = common.lib_dfa_to_ref(acc, name2, inst2, Y, rp) if kind == 'dfa' else common.lib_nfa_to_ref(acc, name2, inst2, Y, rp)
                if R2 is not None:
                    common.expect_equiv(acc, name2, inst2, R2, ref(Rt), rp, sigma=Sg)


def one_total(acc, spec, mask, scheme='s'):
    check_total(acc, spec, mask, scheme)


# ---------------------------------------------------------------- finite-language helpers
def finite_languages():
    W = list(spaces.words(['a', 'b'], 2))
    for bits in range(2 ** len(W)):
        yield bits, {W[i] for i in range(len(W)) if bits >> i & 1}


def check_helpers(acc, shard, nshard):
    import gambatools.language_algorithms as la
    langs = list(finite_languages())
    rp0 = {'fn': 'mc.props.c14:one_helper', 'mode': 'plain'}
    for bits, L in langs:
        if bits % nshard != shard:
            continue
        acc.states += 1
        rp = dict(rp0, params={'bits': bits})
        unary = {
            'language_reverse': {w[::-1] for w in L},
            'language_no_prefix': {w for w in L if not any(w[:i] in L for i in range(len(w)))},
            'language_no_extend': {w for w in L if not any(v != w and v.startswith(w) for v in L)},
        }
        for name, exp in unary.items():
            inst = {'L': sorted(L), 'op': name}
            arg = set(L)
            ok, got = core.lib_call(acc, name, inst, getattr(la, name), arg, repro=rp)
            acc.transitions += 1
            if ok:
                acc.evals += 1
                acc.validated += 1
                if isinstance(got, set) and got is not arg:
                    keep = set(got)
                    got.clear()                    # the caller owns the result
                    ok2, again = core.lib_call(acc, name, inst, getattr(la, name), set(L), repro=rp)
                    if ok2 and again != keep:
                        acc.viol(name, 'a second call returns something else after the caller modified the first result', inst, repro=rp, observed=again)
                    got = keep
                if got != exp or not isinstance(got, (set, frozenset)):
                    acc.viol(name, 'result differs from the documented set operation', inst, repro=rp, observed=got, expected=exp)
                if arg != L:
                    acc.viol(name, 'argument modified', inst, repro=rp)
        if 0 < len(L) < 7:
            acc.nontrivial += 1
        for bits2, L2 in langs:
            binary = {
                'concatenation': {u + v for u in L for v in L2},
                'union': L | L2, 'intersection': L & L2, 'symmetric_difference': L ^ L2,
            }
            for name, exp in binary.items():
                inst = {'L1': sorted(L), 'L2': sorted(L2), 'op': name}
                ok, got = core.lib_call(acc, name, inst, getattr(la, name), set(L), set(L2), repro=dict(rp0, params={'bits': bits, 'bits2': bits2}))
                acc.transitions += 1
                if ok:
                    acc.evals += 1
                    if got != exp:
                        acc.viol(name, 'result differs from the documented set operation', inst, repro=dict(rp0, params={'bits': bits, 'bits2': bits2}), observed=got, expected=exp)
    if shard == 0:
        for k in range(0, 4):
            Sg = set(spaces.LETTERS[:k])
            for n in range(0, 5 if k <= 2 else 4):
                for name, exp in (('words_of_length_n', {''.join(t) for t in itertools.product(sorted(Sg), repeat=n)}),
                                  ('words_up_to_n', {''.join(t) for i in range(n + 1) for t in itertools.product(sorted(Sg), repeat=i)})):
                    inst = {'Sigma': sorted(Sg), 'n': n, 'op': name}
                    ok, got = core.lib_call(acc, name, inst, getattr(la, name), set(Sg), n, repro=dict(rp0, params={'words': [k, n]}))
                    acc.transitions += 1
                    if ok:
                        acc.evals += 1
                        if isinstance(got, set):
                            keep = set(got)
                            got.clear()
                            ok2, again = core.lib_call(acc, name, inst, getattr(la, name), set(Sg), n)
                            if ok2 and again != keep:
                                acc.viol(name, 'a second call returns something else after the caller modified the first result', inst, observed=again)
                            got = keep
                        if got != exp:
                            acc.viol(name, 'result differs from Sigma^n / Sigma^<=n', inst, repro=dict(rp0, params={'words': [k, n]}), observed=got, expected=exp)


def one_helper(acc, bits=None, bits2=None, words=None):
    check_helpers(acc, 0, 1) if bits is None else check_helpers(acc, bits, 256)


def t_pairs(acc, n1, n2, k, shard, nshard, stride=1, offset=0, sch1='s', sch2='r'):
    size2 = spaces.dfa_size(n2, k)
    total = spaces.dfa_size(n1, k) * size2
    for idx in range((offset % stride) + shard * stride, total, nshard * stride):
        check_pair(acc, spaces.dfa_spec(n1, k, idx // size2), spaces.dfa_spec(n2, k, idx % size2), sch1, sch2)


def t_unary(acc, n, k, shard, nshard, scheme='s', stride=1, offset=0):
    for idx in range((offset % stride) + shard * stride, spaces.dfa_size(n, k), nshard * stride):
        check_unary(acc, spaces.dfa_spec(n, k, idx), scheme)


def t_total(acc, n, k, shard, nshard):
    for idx in range(shard, spaces.dfa_size(n, k), nshard):
        for mask in range(2 ** (n * k)):
            check_total(acc, spaces.dfa_spec(n, k, idx), mask)


def plan(tier, seed):
    tasks = []
    P = 'mc.props.c14:'

    def pairs(n1, n2, k, nshard, stride=1, **kw):
        for s in range(nshard):
            tasks.append(('plain', P + 't_pairs', dict({'n1': n1, 'n2': n2, 'k': k, 'shard': s, 'nshard': nshard, 'stride': stride, 'offset': seed}, **kw)))

    def unary(n, k, nshard, scheme='s', stride=1):
        for s in range(nshard):
            tasks.append(('plain', P + 't_unary', {'n': n, 'k': k, 'shard': s, 'nshard': nshard, 'scheme': scheme, 'stride': stride, 'offset': seed}))

    def total(n, k, nshard):
        for s in range(nshard):
            tasks.append(('plain', P + 't_total', {'n': n, 'k': k, 'shard': s, 'nshard': nshard}))

    for (a, b, k) in ((1, 1, 0), (1, 1, 1), (1, 2, 1), (2, 1, 1), (2, 2, 1), (1, 1, 2), (1, 2, 2), (2, 1, 2)):
        pairs(a, b, k, 1)
    pairs(2, 2, 2, 8)
    pairs(3, 2, 1, 4)
    pairs(2, 3, 1, 4)
    for (n, k) in ((1, 0), (2, 0), (1, 1), (1, 2), (2, 1), (2, 2), (3, 1)):
        unary(n, k, 1)
    unary(3, 2, 8)
    unary(2, 2, 1, 'q')
    unary(3, 1, 1, 'q')
    unary(2, 1, 1, 'x')
    for sch in ('t', 'd', 'f', 'u', 'g', 'K', 'b', 'n', 'H'):
        unary(2, 2, 1, sch)
        unary(3, 1, 1, sch)
    # wave 6: operand names as the library's own constructions produce them ({q0,q1}, (s0,r0)), on either side
    for (a_, b_) in (('b', 'r'), ('s', 'b'), ('n', 'u'), ('f', 't'), ('b', 'n')):
        pairs(2, 2, 1, 1, sch1=a_, sch2=b_)
        pairs(1, 2, 2, 1, sch1=a_, sch2=b_)
        pairs(2, 1, 2, 1, sch1=a_, sch2=b_)
    unary(4, 2, 64, 's', stride=16 if tier == 'quick' else 1)
    total(1, 1, 1), total(1, 2, 1), total(2, 1, 1), total(2, 2, 2)
    for s in range(8):
        tasks.append(('plain', P + 'check_helpers', {'shard': s, 'nshard': 8}))
    if tier == 'quick':
        pairs(3, 3, 1, 8, stride=8)
        pairs(3, 2, 2, 8, stride=64)
        bounds = 'pairs DFA(n<=2,k<=2)^2 all; DFA(3,1)xDFA(2,1) both orders; DFA(3,1)^2 stride 1/8; DFA(3,2)xDFA(2,2) stride 1/64; unary DFA(n<=3,k<=2) (+ name schemes q, x); partial DFAs n<=2; helpers on all 128 finite languages over {a,b}^<=2 (pairs: 16 384)'
    else:
        pairs(3, 3, 1, 32)
        pairs(3, 2, 2, 32, stride=4)
        pairs(2, 3, 2, 32, stride=4)
        unary(4, 1, 4)
        unary(3, 2, 8, 'q')
        total(3, 1, 4)
        bounds = 'pairs DFA(n<=2,k<=2)^2, DFA(n<=3,1)^2 all; DFA(3,2)xDFA(2,2) both orders stride 1/4; unary DFA(n<=3,k<=2), DFA(4,1); partial DFAs n<=2, (3,1); helpers on all 128 finite languages (pairs: 16 384)'
    base = list(tasks)
    pres = lambda name, p: (name.endswith('t_unary') and ((p['n'], p['k']) in ((2, 2), (3, 1), (1, 2)) and p['scheme'] in ('s', 'f') or (p['n'], p['k']) == (3, 2) and p['shard'] % 2 == 0)) or (name.endswith('t_pairs') and (p['n1'], p['n2'], p['k']) in ((1, 2, 2), (2, 1, 2), (2, 2, 1))) or name.endswith('t_total')
    for kn in ({'dorder': 'aq'}, {'dorder': 'rev'}):
        tasks = tasks + common.knob_copies(base, pres, kn)
    tasks = tasks + common.ordered_copies(base, lambda name, p: name.endswith('t_unary') and (p['n'], p['k']) in ((2, 2), (2, 1)) and p['scheme'] == 's', orders=common.OBJ_ORDERS)
    tasks = tasks + common.ordered_copies(base, lambda name, p: name.endswith('t_unary') and (p['n'], p['k']) in ((3, 1), (2, 2), (4, 2)) and p['scheme'] == 's' and p['shard'] % 2 == 0)
    return {'tasks': tasks, 'bounds': {'spaces': bounds}, 'exhaustive': True,
            'rule': 'every pair / every DFA in the bounds x each construction, exact equivalence with an oracle-built reference construction; helpers on every finite language over {a,b}^<=2; non-trivial = operands with different languages / unreachable or mixed accepting states / at least one removed transition',
            'assumptions': ['partial DFAs are built with check_validity=False and read as: missing transition = no run',
                            'wave 5: small spaces also with the transition dict filled letter-major / reversed (keys of one state not adjacent), names with non-decimal digits / generated-looking / keyword-like, per-object set-order policies']}
