"""C05 - regexp matcher = denotational semantics; simplifier preserves the language and never grows."""
from mc import core, spaces
from mc.oracles import fa, rx

WORDS = {}


SIGMA = ['a', 'b']


def words(L):
    key = (L, tuple(SIGMA))
    if key not in WORDS:
        WORDS[key] = list(spaces.words(SIGMA, L))
    return WORDS[key]


_LIVE = {}


def morph(spec):
    """One live node object per node class whose fields are rewritten in place for every instance."""
    op = spec[0]
    if op in ('0', '1'):
        return rx.to_lib(spec)
    node = _LIVE.get(op)
    if node is None:
        node = _LIVE[op] = rx.to_lib(spec)
        return node
    if op == 's':
        node.symbol = spec[1]
    elif op == '*':
        node.operand = rx.to_lib(spec[1])
    else:
        node.left = rx.to_lib(spec[1])
        node.right = rx.to_lib(spec[2])
    return node


def check(acc, spec, L, share=False, live=None):
    from gambatools.regexp_algorithms import regexp_accepts_word, regexp_simplify, regexp_size
    rp = {'fn': 'mc.props.c05:one', 'mode': 'plain', 'params': {'spec': spec, 'L': L, 'sigma': list(SIGMA)}}
    inst = {'regexp': rx.show(spec), 'shared_subterms': share}
    if live is not None:
        rp = dict(live, params=dict(live['params'], upto=spec))
        inst['presented_as'] = live['params'].get('how', 'one live node per class rewritten in place')
        r = morph(spec)
    else:
        r = rx.to_lib(spec, {} if share else None)
        rp['params']['share'] = share
    acc.states += 1
    nacc = 0
    for w in words(L):
        ok, got = core.lib_call(acc, 'regexp_accepts_word', dict(inst, word=w), regexp_accepts_word, r, w, repro=rp)
        acc.transitions += 1
        if not ok:
            continue
        exp = rx.matches(spec, w)
        acc.evals += 1
        acc.validated += 1
        nacc += exp
        if got is not exp:
            acc.viol('regexp_accepts_word', 'verdict differs from membership in the denoted language', dict(inst, word=w), repro=rp, observed=got, expected=exp)
    if 0 < nacc < len(words(L)):
        acc.nontrivial += 1
        if rx.nodes(spec) >= 5:
            acc.sample({'regexp': rx.show(spec), 'accepted_words_up_to_%d' % L: nacc})
    ok, s = core.lib_call(acc, 'regexp_simplify', inst, regexp_simplify, r, repro=rp)
    acc.transitions += 1
    if ok:
        acc.evals += 1
        try:
            sspec = rx.from_lib(s)
            after = rx.from_lib(r)
        except rx.Malformed as e:
            acc.viol('regexp_simplify', 'result is not a regular expression', inst, repro=rp, observed=str(e))
            return
        if after != spec:
            acc.viol('regexp_simplify', 'argument was modified', inst, repro=rp, observed=rx.show(after))
        w = fa.equivalent(rx.glushkov(sspec), rx.glushkov(spec), sigma=list(SIGMA))
        acc.validated += 1
        if w is not None:
            acc.viol('regexp_simplify', 'simplified expression denotes a different language', inst, repro=rp, observed={'simplified': rx.show(sspec), 'shortest_distinguishing_word': w})
        if rx.nodes(sspec) > rx.nodes(spec) or rx.doc_size(sspec) > rx.doc_size(spec):
            acc.viol('regexp_simplify', 'simplified expression is larger than its argument', inst, repro=rp, observed=rx.show(sspec))
        if sspec != spec:
            acc.c['simplify_changed_something'] += 1


def one(acc, spec, L, sigma=('a', 'b'), share=False):
    def tup(x):
        return tuple(tup(y) for y in x) if isinstance(x, list) else x
    SIGMA[:] = list(sigma)
    check(acc, tup(spec), L, share)
    SIGMA[:] = ['a', 'b']


def t_space(acc, m, L, shard, nshard, lo=0, digits=False, share=False, multi=False):
    SIGMA[:] = ['0', '1'] if digits else ['a', 'b']
    leaves = ('0', '1', 's0', 's1') if digits else (('0', '1', 'a', 'sab', 'sba') if multi else ('0', '1', 'a', 'b'))
    for idx, spec in rx.trees_up_to(m, leaves):
        if idx % nshard == shard and rx.nodes(spec) > lo:
            check(acc, spec, L, share)
    SIGMA[:] = ['a', 'b']


def bait(x, y):
    """Rewrite-rule bait: shapes on which a simplifier is tempted to factor / absorb, with two independently chosen
    subterms x, y where a sound rule needs x == y."""
    a, b, one = ('s', 'a'), ('s', 'b'), ('1',)
    return [('+', ('.', x, a), ('.', y, b)), ('+', ('.', a, x), ('.', b, y)), ('+', ('.', x, ('*', y)), one), ('+', one, ('.', x, ('*', y))),
            ('+', ('.', ('*', y), x), one), ('.', ('*', x), ('*', y)), ('+', x, ('.', y, ('*', y))), ('.', ('+', x, a), ('+', y, b)),
            ('+', ('*', x), y), ('*', ('+', ('*', x), y)), ('+', ('.', x, a), ('.', y, a)), ('.', ('.', x, ('*', y)), y)]


def t_bait(acc, m, L, shard, nshard):
    big = [r for _, r in rx.trees_up_to(m)]
    k = 0
    for x in big:
        for y in big:
            k += 1
            if k % nshard == shard:
                for spec in bait(x, y):
                    check(acc, spec, L)


def t_after_failure(acc, m, L, n_long, live, upto=None, how=None):
    """History: a legal call that exhausts the interpreter's recursion limit (a* on a^n_long; tolerated, the resource
    limit is the environment's), then every expression with <= m nodes - as fresh objects or through live node objects
    rewritten in place.  Whatever the failed call left behind must not change later answers."""
    from gambatools.regexp_algorithms import regexp_accepts_word, regexp_simplify
    def tup(x):
        return tuple(tup(y) for y in x) if isinstance(x, list) else x
    upto = tup(upto) if upto is not None else None
    _LIVE.clear()
    for spec, w in ((('*', ('s', 'a')), 'a' * n_long), (('*', ('+', ('s', 'a'), ('*', ('s', 'b')))), 'ab' * (n_long // 2))):
        try:
            got = regexp_accepts_word(rx.to_lib(spec), w)
            acc.c['long_word_calls_that_answered'] += 1
            if got is not True:
                acc.viol('regexp_accepts_word', 'verdict differs from membership in the denoted language', {'regexp': rx.show(spec), 'word': 'length %d' % len(w)}, observed=got, expected=True)
        except RecursionError:
            acc.c['long_word_calls_stopped_by_the_recursion_limit'] += 1
        except MemoryError:
            acc.c['long_word_calls_stopped_by_memory'] += 1
    me = {'fn': 'mc.props.c05:t_after_failure', 'mode': 'plain', 'params': {'m': m, 'L': L, 'n_long': n_long, 'live': live, 'how': 'after a call stopped by the recursion limit' + (', live node objects rewritten in place' if live else '')}}
    for idx, spec in rx.trees_up_to(m):
        check(acc, spec, L, live=me if live else None)
        if not live:
            pass
        if upto is not None and spec == upto:
            break
    _LIVE.clear()


def t_live_long(acc, m, upto=None):
    """Wave 6: live node objects rewritten in place, asked about LONG words (33-70 letters) - a shortcut that only long
    words take (another algorithm, a per-object table) must follow the rewriting too.  Expressions with <= m nodes."""
    from gambatools.regexp_algorithms import regexp_accepts_word
    def tup(x):
        return tuple(tup(y) for y in x) if isinstance(x, list) else x
    upto = tup(upto) if upto is not None else None
    _LIVE.clear()
    long_words = ['a' * 33, 'b' * 33, 'ab' * 20, 'a' * 40 + 'b', 'b' + 'a' * 69]
    def cheap(r):
        # the naive matcher is exponential on a star whose operand matches the empty word; those are asked short words only
        if r[0] == '*':
            return not rx.nullable(r[1]) and cheap(r[1])
        return all(cheap(x) for x in r[1:] if isinstance(x, tuple))
    for idx, spec in rx.trees_up_to(m):
        if not cheap(spec):
            continue
        r = morph(spec)
        rp = {'fn': 'mc.props.c05:t_live_long', 'mode': 'plain', 'params': {'m': m, 'upto': spec}}
        acc.states += 1
        for w in long_words:
            inst = {'regexp': rx.show(spec), 'word': '%s... (%d letters)' % (w[:6], len(w)), 'presented_as': 'live node objects rewritten in place'}
            ok, got = core.lib_call(acc, 'regexp_accepts_word', inst, regexp_accepts_word, r, w, repro=rp)
            acc.transitions += 1
            if ok:
                acc.evals += 1
                acc.validated += 1
                exp = rx.matches(spec, w)
                if exp:
                    acc.nontrivial += 1
                if got is not exp:
                    acc.viol('regexp_accepts_word', 'verdict differs from membership in the denoted language', inst, repro=rp, observed=got, expected=exp)
        if upto is not None and spec == upto:
            break
    _LIVE.clear()


def plan(tier, seed):
    tasks = []
    T = 'mc.props.c05:t_space'
    tasks.append(('plain', 'mc.props.c05:t_live_long', {'m': 3}))
    tasks.append(('plain', 'mc.props.c05:t_after_failure', {'m': 4, 'L': 3, 'n_long': 3000, 'live': True}))
    tasks.append(('plain', 'mc.props.c05:t_after_failure', {'m': 4, 'L': 3, 'n_long': 3000, 'live': False}))
    tasks.extend(('plain', 'mc.props.c05:t_bait', {'m': 3, 'L': 3, 'shard': s_, 'nshard': 8}) for s_ in range(8))

    def add(m, L, ns, **kw):
        tasks.extend(('plain', T, dict({'m': m, 'L': L, 'shard': s, 'nshard': ns}, **kw)) for s in range(ns))

    add(5, 6, 4)
    add(6, 4, 16, lo=5)
    add(7, 3, 32, lo=6)
    add(8, 3, 64, lo=7)
    add(6, 3, 8, share=True)
    add(5, 4, 4, multi=True)
    add(5, 4, 4, digits=True)
    bounds = 'RE(5) x words <= 6; RE(6) x words <= 4; RE(7), RE(8) x words <= 3; RE(6) with equal subterms shared as one node object (DAG); RE(5) with the two-character symbols ab, ba; RE(5) over the digit symbols 0,1 (which print like the constants) x words <= 4'
    if tier != 'quick':
        add(6, 6, 16, lo=5)
        add(7, 5, 64, lo=6)
        add(9, 3, 256, lo=8)
        add(7, 3, 32, share=True, lo=6)
        add(6, 4, 16, multi=True, lo=5)
        add(6, 4, 16, digits=True, lo=5)
        bounds += '; thorough adds RE(6) x words <= 6, RE(7) x words <= 5, RE(9) (665 252 trees) x words <= 3, DAG RE(7), two-character symbols and digit symbols on RE(6)'
    return {'tasks': tasks, 'bounds': {'spaces': bounds}, 'exhaustive': True,
            'rule': 'every expression tree with <= m nodes over leaves 0,1,a,b and operators *,+,. x every word over {a,b} up to L (matcher vs Brzozowski derivatives); simplifier vs exact Glushkov equivalence; non-trivial = accepts some but not all tested words',
            'assumptions': ['symbols are single characters or identifiers (ab, ba); a word is a string', 'wave 5: rewrite-rule bait family (12 shapes x all pairs of subterms with <= 3 nodes, 11-13 nodes each); RE(4) again after calls stopped by the recursion limit (a* on a^3000), as fresh objects and through live node objects rewritten in place; a RecursionError on a very long word is the environment resource limit and is not judged', 'wave 6: RE(3) through live node objects on words of 33-70 letters']}
