"""C02 - bounded enumeration is exact: X_words_up_to_n(x, n) = {w in Sigma^<=n : accepts_X(x, w)} for the six
formalisms, every n >= 0, and generate_language returns the same sets (PDA: when no closure hits the limit)."""
from mc import core, spaces
from mc.oracles import fa, rx, cfg, pda, tm
from mc.props.c01 import _nfa_space


def tup(x):
    return tuple(tup(y) for y in x) if isinstance(x, list) else x


def compare(acc, fname, inst, rp, got, accepted, n, sigma, subset_only=False):
    """got: library enumeration for bound n; accepted: dict word -> library acceptance verdict on Sigma^<=N."""
    acc.evals += 1
    acc.validated += 1
    if not isinstance(got, (set, frozenset)):
        acc.viol(fname, 'result is not a set', inst, repro=rp, observed=got)
        return
    exp = {w for w, v in accepted.items() if len(w) <= n and v is True}
    for w in got:
        if not isinstance(w, str) or len(w) > n or any(c not in sigma for c in w):
            acc.viol(fname, 'returns something that is not a word of length <= n over the alphabet', inst, repro=rp, observed=w)
            return
    if subset_only:
        return
    if got != exp:
        d = sorted(got ^ exp, key=lambda w: (len(w), w))[0]
        acc.viol(fname, 'enumeration differs from the set of accepted words up to n', inst, repro=rp,
                 observed={'word': d or 'ε', 'enumerated': d in got, 'accepted_by_acceptance_test': d in exp})


def generic(acc, fname, inst, rp, x, n, got_specific, **kw):
    from gambatools.language_generator import generate_language
    ok, g = core.lib_call(acc, 'generate_language', inst, generate_language, x, n, repro=rp)
    acc.transitions += 1
    if ok:
        acc.evals += 1
        if g != got_specific:
            acc.viol('generate_language', 'generic generator differs from {}'.format(fname), inst, repro=rp, observed=sorted(g ^ got_specific) if isinstance(g, set) else g)


def check_fa(acc, kind, spec, N, ns, variant=('s', '', 'sparse')):
    import gambatools.dfa_algorithms as da
    import gambatools.nfa_algorithms as na
    rp = {'fn': 'mc.props.c02:one_fa', 'mode': 'plain', 'params': {'kind': kind, 'spec': spec, 'N': N, 'ns': list(ns), 'variant': list(variant)}}
    if kind == 'dfa':
        X = spaces.build_dfa(spec, variant[0])
        sigma = spaces.LETTERS[:spec[2]]
        f_acc, f_enum, fname = da.dfa_accepts_word, da.dfa_words_up_to_n, 'dfa_words_up_to_n'
    else:
        X = spaces.build_nfa(spec, *variant)
        sigma = spaces.LETTERS[:spec[2]]
        f_acc, f_enum, fname = na.nfa_accepts_word, na.nfa_words_up_to_n, 'nfa_words_up_to_n'
    acc.states += 1
    accepted = {}
    for w in spaces.words(sigma, N):
        ok, v = core.lib_call(acc, f_acc.__name__, {kind: spec, 'word': w}, f_acc, X, w, repro=rp)
        acc.transitions += 1
        accepted[w] = v if ok else None
    nt = 0 < sum(1 for v in accepted.values() if v) < len(accepted)
    acc.nontrivial += nt
    if nt and spec[1] >= 2:
        acc.sample({'kind': kind, 'spec': spec, 'accepted_up_to_%d' % N: sorted(w for w, v in accepted.items() if v)[:10]})
    for n in ns:
        inst = {kind: spec, 'variant': list(variant), 'n': n}
        ok, got = core.lib_call(acc, fname, inst, f_enum, X, n, repro=rp)
        acc.transitions += 1
        if ok:
            compare(acc, fname, inst, rp, got, accepted, n, sigma)
            generic(acc, fname, inst, rp, X, n, got)
            if isinstance(got, set) and n == ns[-1]:
                # the caller owns the returned set: emptying it must not influence a later call
                keep = set(got)
                got.clear()
                ok2, again = core.lib_call(acc, fname, inst, f_enum, X, n, repro=rp)
                if ok2 and again != keep:
                    acc.viol(fname, 'a second call returns something else after the caller modified the first result', inst, repro=rp, observed=sorted(again ^ keep) if isinstance(again, set) else again)


def one_fa(acc, kind, spec, N, ns, variant):
    check_fa(acc, kind, tup(spec), N, ns, tuple(variant))


def check_re(acc, spec, N, ns, sigma=('a', 'b'), share=False, lib_obj=None):
    import gambatools.regexp_algorithms as ra
    rp = {'fn': 'mc.props.c02:one_re', 'mode': 'plain', 'params': {'spec': spec, 'N': N, 'ns': list(ns)}}
    r = lib_obj if lib_obj is not None else rx.to_lib(spec, {} if share else None)
    sigma = list(sigma)
    acc.states += 1
    accepted = {}
    for w in spaces.words(sigma, N):
        ok, v = core.lib_call(acc, 'regexp_accepts_word', {'regexp': rx.show(spec), 'word': w}, ra.regexp_accepts_word, r, w, repro=rp)
        acc.transitions += 1
        accepted[w] = v if ok else None
    acc.nontrivial += 0 < sum(1 for v in accepted.values() if v) < len(accepted)
    for n in ns:
        inst = {'regexp': rx.show(spec), 'n': n}
        ok, got = core.lib_call(acc, 'regexp_words_up_to_n', inst, ra.regexp_words_up_to_n, r, n, repro=rp)
        acc.transitions += 1
        if ok:
            compare(acc, 'regexp_words_up_to_n', inst, rp, got, accepted, n, sigma)
            generic(acc, 'regexp_words_up_to_n', inst, rp, r, n, got)


def one_re(acc, spec, N, ns):
    check_re(acc, tup(spec), N, ns)


def check_cfg(acc, spec, N, ns, morph=False):
    import gambatools.cfg_algorithms as ca
    rp = {'fn': 'mc.props.c02:one_cfg', 'mode': 'plain', 'params': {'spec': spec, 'N': N, 'ns': list(ns)}}
    if morph:
        rp = {'fn': 'mc.props.c02:t_cfg', 'mode': 'plain', 'params': dict(acc.data.get('ctx', {}), upto=spec)}
    G = cfg.morph(spec) if morph else cfg.to_lib(spec)
    sigma = list(spec[2])
    acc.states += 1
    accepted = {}
    for w in spaces.words(sigma, N):
        ok, v = core.lib_call(acc, 'cfg_accepts_word', {'grammar': cfg.show(spec), 'word': w}, ca.cfg_accepts_word, G, w, repro=rp)
        acc.transitions += 1
        accepted[w] = v if ok else None
    nt = 0 < sum(1 for v in accepted.values() if v) < len(accepted)
    acc.nontrivial += nt
    if nt and len(spec[3]) >= 3:
        acc.sample({'grammar': cfg.show(spec), 'accepted_up_to_%d' % N: sorted((w for w, v in accepted.items() if v), key=lambda w: (len(w), w))[:8]})
    for n in ns:
        inst = {'grammar': cfg.show(spec), 'n': n}
        ok, got = core.lib_call(acc, 'cfg_words_up_to_n', inst, ca.cfg_words_up_to_n, G, n, repro=rp)
        acc.transitions += 1
        if ok:
            compare(acc, 'cfg_words_up_to_n', inst, rp, got, accepted, n, sigma)
            generic(acc, 'cfg_words_up_to_n', inst, rp, G, n, got)


def one_cfg(acc, spec, N, ns):
    check_cfg(acc, tup(spec), N, ns)


def check_pda(acc, spec, N, ns, limits, stack=('x', 'y')):
    import gambatools.pda_algorithms as pa
    from gambatools.global_settings import GambaTools
    rp = {'fn': 'mc.props.c02:one_pda', 'mode': 'plain', 'params': {'spec': spec, 'N': N, 'ns': list(ns), 'limits': list(limits), 'stack': list(stack)}}
    R = pda.ref(spec, stack)
    P = pda.build(spec, stack)
    sigma = R.Sigma
    acc.states += 1
    cap = max(limits) + 1
    reflang = {w for w in spaces.words(sigma, N) if pda.accepts(R, w)}
    # true sizes of all closures the enumerator (per n) and the acceptance test (per word) have to compute
    acc_sizes = {}
    for w in spaces.words(sigma, N):
        _, complete, mx, _ = pda.run_sets(R, w, cap)
        acc_sizes[w] = mx if complete else cap + 1
    old = GambaTools.pda_epsilon_closure_max_iterations
    interesting = False
    try:
        for lim in limits:
            GambaTools.pda_epsilon_closure_max_iterations = lim
            accepted = {}
            for w in spaces.words(sigma, N):
                ok, v = core.lib_call(acc, 'pda_accepts_word', {'pda': pda.show(spec, stack), 'word': w, 'limit': lim}, pa.pda_accepts_word, P, w, repro=rp)
                acc.transitions += 1
                accepted[w] = v if ok else None
            for n in ns:
                inst = {'pda': pda.show(spec, stack), 'n': n, 'limit': lim}
                complete, mx, _ = pda.enum_sizes(R, n, cap)
                premise = complete and mx <= lim and all(acc_sizes[w] <= lim for w in accepted if len(w) <= n)
                ok, got = core.lib_call(acc, 'pda_words_up_to_n', inst, pa.pda_words_up_to_n, P, n, repro=rp)
                acc.transitions += 1
                if not ok:
                    continue
                acc.c['premise_true' if premise else 'premise_false'] += 1
                compare(acc, 'pda_words_up_to_n', inst, rp, got, accepted, n, sigma, subset_only=not premise)
                if isinstance(got, (set, frozenset)) and not got <= reflang:
                    acc.viol('pda_words_up_to_n', 'enumerates a word that has no accepting computation', inst, repro=rp, observed=sorted(got - reflang)[:3])
                if premise and got:
                    interesting = True
                generic(acc, 'pda_words_up_to_n', inst, rp, P, n, got)
    finally:
        GambaTools.pda_epsilon_closure_max_iterations = old
    acc.nontrivial += interesting
    if interesting and len(spec[4]) >= 3:
        acc.sample(pda.show(spec, stack))


def one_pda(acc, spec, N, ns, limits, stack):
    check_pda(acc, tup(spec), N, ns, tuple(limits), tuple(stack))


def check_tm(acc, spec, N, ns, budgets, blank='_', kw=None):
    import gambatools.tm_algorithms as ta
    kw = kw or {}
    rp = {'fn': 'mc.props.c02:one_tm', 'mode': 'plain', 'params': {'spec': spec, 'N': N, 'ns': list(ns), 'budgets': list(budgets), 'blank': blank, 'kw': kw}}
    T = tm.build(spec, blank, **kw)
    sigma = tm.parts(spec, blank, **kw)[1]
    shown = tm.show(spec, blank, **kw)
    acc.states += 1
    seen = set()
    for k in budgets:
        accepted = {}
        for w in spaces.words(sigma, N):
            ok, v = core.lib_call(acc, 'tm_accepts_word', {'tm': shown, 'word': w, 'max_steps': k}, ta.tm_accepts_word, T, w, k, repro=rp)
            acc.transitions += 1
            accepted[w] = v if ok else None
            seen.add(accepted[w])
        for n in ns:
            inst = {'tm': shown, 'n': n, 'max_steps': k}
            ok, got = core.lib_call(acc, 'tm_words_up_to_n', inst, ta.tm_words_up_to_n, T, n, k, repro=rp)
            acc.transitions += 1
            if ok:
                compare(acc, 'tm_words_up_to_n', inst, rp, got, accepted, n, sigma)
                if k == 1000:
                    generic(acc, 'tm_words_up_to_n', inst, rp, T, n, got)
    acc.nontrivial += len(seen) >= 2


def one_tm(acc, spec, N, ns, budgets, blank='_', kw=None):
    check_tm(acc, tup(spec), N, ns, tuple(budgets), blank, kw)


def t_tm_blank(acc, N, ns, budgets, shard, nshard):
    """Machines that differ ONLY in which tape symbol is the blank (same states, same tape alphabet {a, _, #}, same
    delta), enumerated back to back in one process."""
    for idx, spec in tm.tms(1, 3):
        if idx % nshard != shard:
            continue
        for blank in (('_', '#') if idx % 2 else ('#', '_')):
            check_tm(acc, spec, N, ns, tuple(budgets), blank, {'gamma': ['a', '_', '#'], 'sigma': ['a']})


def check_set(acc):
    from gambatools.language_generator import generate_language
    for L in (set(), {''}, {'a', 'ab', 'bbbbbbb'}):
        for n in (0, 1, 3):
            ok, g = core.lib_call(acc, 'generate_language', {'set': sorted(L), 'n': n}, generate_language, set(L), n)
            acc.transitions += 1
            if ok and g != L:
                acc.viol('generate_language', 'a finite language given as a set is not returned unchanged', {'set': sorted(L), 'n': n}, observed=g)


# ---------------------------------------------------------------- tasks
def t_dfa(acc, n, k, N, ns, shard, nshard):
    for idx in range(shard, spaces.dfa_size(n, k), nshard):
        check_fa(acc, 'dfa', spaces.dfa_spec(n, k, idx), N, ns)
    if shard == 0:
        check_set(acc)


def t_nfa(acc, space, N, ns, shard, nshard, variants):
    for idx, spec in spaces.shard(_nfa_space(tup(space)), shard, nshard):
        for v in variants:
            check_fa(acc, 'nfa', spec, N, ns, tuple(v))


def t_re(acc, m, N, ns, shard, nshard, digits=False, share=False):
    leaves = ('0', '1', 's1', 'a') if digits else ('0', '1', 'a', 'b')
    for idx, spec in rx.trees_up_to(m, leaves):
        if idx % nshard == shard:
            check_re(acc, spec, N, ns, ['1', 'a'] if digits else ['a', 'b'], share=share)


def t_re_from_dfa(acc, n, k, N, ns, shard, nshard, stride=1):
    """Expression objects as the library itself produces them (dfa_to_regexp returns DAGs with shared nodes)."""
    from gambatools.regexp_algorithms import dfa_to_regexp
    for idx in range(shard * stride, spaces.dfa_size(n, k), nshard * stride):
        spec = spaces.dfa_spec(n, k, idx)
        ok, r = core.lib_call(acc, 'dfa_to_regexp', {'dfa': spec}, dfa_to_regexp, spaces.build_dfa(spec))
        if not ok:
            continue
        try:
            rs = rx.from_lib(r)
        except rx.Malformed:
            continue
        if rx.nodes(rs) <= 60:
            check_re(acc, rs, N, ns, spaces.LETTERS[:k], lib_obj=r)


def t_cfg(acc, space, N, ns, shard, nshard, stride=1, offset=0, morph=False, upto=None):
    upto = tup(upto) if upto is not None else None
    gen = cfg.cnf3() if space == 'cnf3' else cfg.cfg2(space == 'cfg2+')
    if morph:
        cfg._LIVE.clear()
        acc.data['ctx'] = {'space': space, 'N': N, 'ns': list(ns), 'shard': shard, 'nshard': nshard, 'stride': stride, 'offset': offset, 'morph': True}
    for idx, spec in gen:
        if idx % stride == offset % stride and (idx // stride) % nshard == shard:
            check_cfg(acc, spec, N, ns, morph=morph)
            if not morph and (idx // stride) % 4 == 0:
                check_cfg(acc, ('cfg', spec[1], spec[2], spec[3], 'A'), N, ns)          # same rules, other start variable
            if upto is not None and spec == upto:
                break
    acc.data.clear()


def t_pda(acc, n, k, g, t, N, ns, limits, shard, nshard, stride=1, offset=0, tmin=0):
    for idx, spec in pda.pdas(n, k, g, t, tmin=tmin):
        if idx % stride == offset % stride and (idx // stride) % nshard == shard:
            check_pda(acc, spec, N, ns, tuple(limits))


def t_pda_family(acc, family, N, ns, limits, shard, nshard, stack=('x', 'y')):
    """Thin PDA families (wave 5): stack symbols whose concatenations coincide; coprime epsilon cycles; one fan whose
    per-configuration closures (767) fit any limit near the default while the closure of the SET of configurations
    (1278) only fits a limit raised above the default of 1000."""
    from mc.props import c09
    if family == 'fan':
        gen = [(0, pda.fan_instance(8))]
    else:
        gen = {'multichar': c09.multichar_family, 'pushpop': pda.multichar_pushpop_family, 'stackfree': pda.stackfree_family, 'stackfree2': lambda: pda.stackfree_family(3, 2, 3), 'cyc': lambda: pda.cyc_family(3, front=True)}[family]()
    for idx, spec in gen:
        if idx % nshard == shard:
            check_pda(acc, spec, N, ns, tuple(limits), tuple(stack))


def t_tm(acc, w, g, N, ns, budgets, shard, nshard, stride=1, offset=0):
    if w == 0:
        for spec in tm.tm_halting_start(g):
            check_tm(acc, spec, N, ns, tuple(budgets))
        return
    for idx, spec in tm.tms(w, g):
        if idx % stride == offset % stride and (idx // stride) % nshard == shard:
            check_tm(acc, spec, N, ns, tuple(budgets))


def plan(tier, seed):
    tasks = []
    P = 'mc.props.c02:'
    q = tier == 'quick'
    ns = [0, 1, 2, 3] if q else [0, 1, 2, 3, 4]
    N = max(ns)

    def add(fn, nshard, **kw):
        tasks.extend(('plain', P + fn, dict(kw, shard=s, nshard=nshard)) for s in range(nshard))

    for (n, k) in ((1, 0), (2, 0), (1, 1), (1, 2), (2, 1), (2, 2), (3, 1)):
        add('t_dfa', 1, n=n, k=k, N=N + 1, ns=ns + [N + 1])
    add('t_dfa', 8, n=3, k=2, N=N, ns=ns)
    V = [['s', '', 'sparse'], ['s', '_', 'total'], ['s', 'ε', 'empties']]
    add('t_nfa', 1, space=['nfa', 1, 1, None, False], N=N + 1, ns=ns + [N + 1], variants=V)
    add('t_nfa', 4, space=['nfa', 2, 1, None, False], N=N + 1, ns=ns + [N + 1], variants=V)
    add('t_nfa', 1, space=['nfa', 2, 0, None, False], N=2, ns=[0, 1, 2], variants=V)
    add('t_nfa', 16, space=['nfa', 2, 2, None if not q else 4, False], N=N, ns=ns, variants=V[:1])
    add('t_nfa', 8, space=['nfa', 3, 1, 3, False], N=N, ns=ns, variants=V[:1])
    add('t_nfa', 2, space=['chain', 5], N=3, ns=[0, 1, 2, 3], variants=V[:1])
    add('t_re', 16, m=6 if q else 7, N=N, ns=ns)
    add('t_re', 4, m=5, N=N, ns=ns, digits=True)
    add('t_re', 8, m=6, N=3, ns=[0, 1, 2, 3], share=True)
    add('t_re_from_dfa', 2, n=2, k=2, N=3, ns=[0, 1, 2, 3])
    add('t_re_from_dfa', 16, n=3, k=2, N=3, ns=[2, 3], stride=4 if q else 1)
    add('t_cfg', 8, space='cfg2', N=3, ns=[0, 1, 2, 3], stride=32 if q else 8, offset=seed, morph=True)
    add('t_tm_blank', 8, N=2, ns=[0, 1, 2], budgets=[0, 2, 8])
    add('t_cfg', 32, space='cfg2', N=N, ns=ns, stride=8 if q else 1, offset=seed)
    add('t_cfg', 16, space='cfg2+', N=N, ns=ns, stride=32 if q else 4, offset=seed)
    add('t_cfg', 16, space='cnf3', N=N, ns=ns, stride=4 if q else 1, offset=seed)
    lim = [1, 2, 3, 5, 8]
    add('t_pda', 1, n=1, k=1, g=1, t=3, N=N, ns=ns, limits=lim)
    add('t_pda', 32, n=2, k=1, g=1, t=3, N=N, ns=ns, limits=lim, stride=4 if q else 1, offset=seed)
    add('t_pda', 16, n=2, k=2, g=1, t=2, N=min(N, 3), ns=[0, 1, 2, 3], limits=lim, stride=4 if q else 1, offset=seed)
    add('t_pda', 8, n=2, k=1, g=1, t=3, N=2, ns=[0, 1, 2], limits=[13, 30], stride=64 if q else 16, offset=seed, tmin=2)
    tasks.insert(0, ('plain', P + 't_pda_family', {'family': 'fan', 'N': 9, 'ns': [9], 'limits': [1400], 'shard': 0, 'nshard': 1}))
    add('t_pda_family', 1, family='multichar', N=3, ns=[0, 1, 2, 3], limits=[5, 8], stack=['A', 'B', 'AB'])
    add('t_pda_family', 1, family='multichar', N=2, ns=[0, 1, 2], limits=[8], stack=['γ', 'Ω', 'γΩ'])
    add('t_pda_family', 1, family='cyc', N=2, ns=[0, 1, 2], limits=[8, 60])
    add('t_pda_family', 16, family='stackfree', N=5, ns=[0, 1, 2, 3, 5], limits=[8])      # wave 6: 9 180 stack-free PDAs with 3 states, 4 moves
    add('t_pda_family', 16, family='stackfree2', N=3, ns=[0, 2, 3], limits=[8])
    add('t_pda_family', 4, family='pushpop', N=4, ns=[0, 2, 3, 4], limits=[8], stack=['A', 'B', 'AB', '$'])
    add('t_pda_family', 1, family='pushpop', N=3, ns=[3], limits=[8], stack=['γ', 'Ω', 'γΩ', '$'])
    B = [0, 1, 2, 4, 8, 1000]
    add('t_tm', 1, w=0, g=2, N=2, ns=[0, 1, 2], budgets=B)
    add('t_tm', 2, w=1, g=2, N=3, ns=[0, 1, 2, 3], budgets=B)
    add('t_tm', 8, w=1, g=3, N=2, ns=[0, 1, 2], budgets=B[:5])
    add('t_tm', 32, w=2, g=2, N=2, ns=[0, 1, 2], budgets=B[:5], stride=8 if q else 1, offset=seed)
    bounds = {'n': ns, 'DFA': 'n<=3,k<=2', 'NFA': '(1,1),(2,1),(2,0) x 3 variants; (2,2,{}); (3,1,<=3); chain 5'.format('<=4' if q else 'all'),
              'regexp': 'RE(6)' if q else 'RE(7)', 'CFG': 'CFG2 stride 1/8, CFG2+ 1/32, CNF(3) 1/4' if q else 'CFG2, CNF(3) all, CFG2+ 1/4',
              'PDA': 'PDA(1,1,1,3); PDA(2,1,1,<=3), PDA(2,2,1,<=2) {} x limits 1,2,3,5,8 (+13, 30 on a stride, n<=2)'.format('stride 1/4' if q else 'all'),
              'TM': 'TM(0,2), TM(1,2), TM(1,3), TM(2,2) {} x budgets 0,1,2,4,8(,1000)'.format('stride 1/8' if q else 'all')}
    return {'tasks': tasks, 'bounds': bounds, 'exhaustive': True,
            'rule': 'every object of the six kinds inside the bounds x every bound n x every limit/budget: enumeration vs the library acceptance test on all of Sigma^<=n (as C02 is worded), words checked for length and alphabet, generate_language vs the specific enumerator; PDA equality only under the closure premise (decided by explicit configuration search), otherwise subset of the reference language; non-trivial = some but not all words accepted',
            'assumptions': ['the acceptance tests themselves are judged by C01/C05/C07/C09/C11', 'wave 5 PDA families: stack symbols A, B, AB and outside latin-1; coprime epsilon cycles; one fan instance at limit 1400 whose set closures have 1278 configurations (words <= 9)', 'wave 6: all epsilon-NFAs with 3 states and exactly 4 (one letter) / 3 (two letters) transitions written as PDAs that never touch the stack']}
