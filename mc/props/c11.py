"""C11 - TM simulation: three-valued bounded verdict and a step-by-step configuration sequence (Sipser)."""
from mc import core, spaces
from mc.oracles import tm

BUDGETS = tuple(range(0, 9))


def tup(x):
    return tuple(tup(y) for y in x) if isinstance(x, list) else x


def check(acc, spec, L, budgets=BUDGETS, blank='_', kw=None):
    from gambatools.tm_algorithms import tm_accepts_word, tm_simulate_word
    kw = kw or {}
    rp = {'fn': 'mc.props.c11:one', 'mode': 'plain', 'params': {'spec': spec, 'L': L, 'budgets': list(budgets), 'blank': blank, 'kw': kw}}
    Q, sigma, gamma, delta, q0, qa, qr, blank = tm.parts(spec, blank, **kw)
    ok, T = core.lib_call(acc, 'TM()', {'tm': spec}, lambda: tm.build(spec, blank, **kw), repro=rp)
    if not ok:
        return
    shown = tm.show(spec, blank, **kw)
    shown['delta_insertion_order'] = kw.get('order', 'cells')
    acc.states += 1
    seen = set()
    for w in spaces.words(sigma, L):
        decided = None
        for k in budgets:
            exp, confs = tm.run(delta, q0, qa, qr, blank, w, k)
            seen.add(exp)
            inst = {'tm': shown, 'word': w, 'max_steps': k}
            ok, got = core.lib_call(acc, 'tm_accepts_word', inst, tm_accepts_word, T, w, k, repro=rp)
            acc.transitions += 1
            if ok:
                acc.evals += 1
                acc.validated += 1
                if got is not exp:
                    acc.viol('tm_accepts_word', 'verdict differs from the Sipser step semantics', inst, repro=rp, observed=got, expected=exp)
                if decided is not None and got is not decided[0] and got is exp:
                    pass
                if got is not None and decided is None:
                    decided = (got, k)
                elif decided is not None and got is not decided[0]:
                    acc.viol('tm_accepts_word', 'a larger budget changed a decided verdict', inst, repro=rp, observed=got, expected=decided[0], decided_at=decided[1])
            ok, tr = core.lib_call(acc, 'tm_simulate_word', inst, tm_simulate_word, T, w, k, repro=rp)
            acc.transitions += 1
            if not ok:
                continue
            acc.evals += 1
            with core.inspecting(acc, 'tm_simulate_word', inst, repro=rp):
                msg = judge_trace(tr, confs, exp, k, w, q0, qa, qr, blank)
                if msg:
                    acc.viol('tm_simulate_word', msg, inst, repro=rp, observed=[[q, ''.join(t), h] for (q, t, h) in tr][:12],
                             expected=[[c[0], ''.join(c[1]), c[2]] for c in confs][:12])
    if len(seen) >= 2:
        acc.nontrivial += 1
        if len(delta) >= 2:
            acc.sample(shown)


def judge_trace(tr, confs, exp, k, w, q0, qa, qr, blank):
    if not isinstance(tr, list) or not tr:
        return 'trace is not a non-empty list'
    if len(tr) > k + 1:
        return 'trace longer than max_steps + 1'
    q, tape, head = tr[0]
    if q != q0 or head != 0 or list(tape) != (list(w) if w else [blank]):
        return 'trace does not start with the initial configuration'
    if len(tr) != len(confs):
        return 'trace length differs from the number of configurations up to the first halting state / the budget'
    for i, (got, want) in enumerate(zip(tr, confs)):
        q, tape, head = got
        wq, wtape, whead, implicit = want
        if q != wq:
            return 'state at step {} differs'.format(i)
        if tm.strip(tape, blank) != tm.strip(wtape, blank):
            return 'tape at step {} differs'.format(i)
        if whead is not None and i > 0 and head != whead:
            return 'head position at step {} differs'.format(i)
        if q in (qa, qr) and i != len(tr) - 1:
            return 'trace continues after a halting state'
    last = tr[-1][0]
    if exp is True and last != qa:
        return 'verdict accept but trace does not end in the accepting state'
    if exp is False and last != qr:
        return 'verdict reject but trace does not end in the rejecting state'
    if exp is None and last in (qa, qr):
        return 'undecided verdict but trace ends in a halting state'
    return None


def one(acc, spec, L, budgets, blank, kw=None):
    check(acc, tup(spec), L, tuple(budgets), blank, kw)


VARIANTS = [
    ('_', {'order': 'symbols'}),                       # delta filled symbol by symbol, not state by state
    ('□', {'names': ['a', 'b']}),                      # working states named like tape symbols
    ('_', {'names': ['q1', 'q10'], 'order': 'symbols'}),
    ('#', {'gamma': None}),
]


def t_variants(acc, w, g, L, shard, nshard, stride=1, offset=0, budgets=BUDGETS):
    """Every machine in several presentations, back to back in one process: other insertion order of delta, state
    names that read like tape contents, alternating blank symbols (the empty word is then a different tape)."""
    for idx, spec in tm.tms(w, g):
        if idx % stride == offset % stride and (idx // stride) % nshard == shard:
            for blank, kw in VARIANTS:
                kw = {k: v for k, v in kw.items() if v is not None}
                check(acc, spec, L, tuple(budgets), blank, kw)


def long_machines():
    """Thin deep family (wave 5): machines whose halting runs take hundreds to thousands of steps and revisit the same
    (state, head position) pairs with different tape contents."""
    A, B, X, Y, BL = 0, 1, 2, 3, 4
    QA, QR = 4, 5
    # a^n b^n by crossing off (gamma a, b, X, Y, blank): s0 marks an a, s1 runs right to the first b, s2 runs back, s3 checks
    cross = {(0, A): (1, X, 'R'), (0, Y): (3, Y, 'R'), (0, BL): (QA, BL, 'R'),
             (1, A): (1, A, 'R'), (1, Y): (1, Y, 'R'), (1, B): (2, Y, 'L'),
             (2, A): (2, A, 'L'), (2, Y): (2, Y, 'L'), (2, X): (0, X, 'R'),
             (3, Y): (3, Y, 'R'), (3, BL): (QA, BL, 'R')}
    g = 5
    choice = tuple(cross.get((q, a)) for q in range(4) for a in range(g))
    yield 'a^n b^n by crossing off', ('tm', 4, g, choice, 0), {'gamma': ['a', 'b', 'X', 'Y', '_'], 'sigma': ['a', 'b']}, \
        ['a' * n + 'b' * m for n in (0, 1, 3, 8, 14, 20) for m in (n, n + 1, max(n - 1, 0))]
    # binary counter (gamma 0, 1, blank): increments the number on the tape (least significant bit first) until it overflows
    Z, O, BL3 = 0, 1, 2
    cnt = {(0, Z): (1, O, 'L'), (0, O): (0, Z, 'R'), (0, BL3): (2, BL3, 'R'),
           (1, Z): (1, Z, 'L'), (1, O): (1, O, 'L'), (1, BL3): (0, BL3, 'R')}
    # note: a left move at cell 0 stays, so state s1 reads cell 0 again: it is given its own return rule below
    cnt[(1, Z)] = (0, Z, 'L')
    cnt[(1, O)] = (0, O, 'L')
    choice = tuple(cnt.get((q, a)) for q in range(2) for a in range(3))
    yield 'binary counter', ('tm', 2, 3, choice, 0), {'gamma': ['0', '1', '_'], 'sigma': ['0', '1']}, ['0' * n for n in (1, 3, 5, 6)] + ['0110', '00000001']
    # shifter (gamma 0, 1, blank; input 0^k 1^m): erases the zeros, then moves the block of ones to the left end one cell per
    # round trip (the left end is recognised by a left move that stays put): the data travels across blanks it leaves behind
    Z, O, B3 = 0, 1, 2
    QA6 = 6
    sh = {(0, Z): (0, B3, 'R'), (0, O): (1, O, 'L'), (0, B3): (QA6, B3, 'R'),
          (1, B3): (5, O, 'L'), (1, O): (QA6, O, 'R'),
          (5, O): (QA6, O, 'R'), (5, B3): (2, B3, 'R'),
          (2, O): (2, O, 'R'), (2, B3): (3, B3, 'L'),
          (3, O): (4, B3, 'L'),
          (4, O): (4, O, 'L'), (4, B3): (5, O, 'L')}
    choice = tuple(sh.get((q, a)) for q in range(6) for a in range(3))
    yield 'shifter', ('tm', 6, 3, choice, 0), {'gamma': ['0', '1', '_'], 'sigma': ['0', '1']}, ['0' * k + '1' * m for (k, m) in ((0, 4), (3, 0), (5, 3), (17, 62), (48, 30), (40, 60))]
    # runner: moves right over a long input and accepts at the first blank (head far beyond cell 256)
    run = {(0, 0): (0, 0, 'R'), (0, 1): (1, 1, 'R')}
    choice = tuple(run.get((q, a)) for q in range(1) for a in range(2))
    yield 'runner', ('tm', 1, 2, choice, 0), {}, ['a' * n for n in (255, 256, 257, 300, 700)]


def t_long(acc, which=None):
    from gambatools.tm_algorithms import tm_accepts_word, tm_simulate_word
    for mi, (name, spec, kw, wordlist) in enumerate(long_machines()):
        if which is not None and mi != which:
            continue
        Q, sigma, gamma, delta, q0, qa, qr, blank = tm.parts(spec, '_', **kw)
        T = tm.build(spec, '_', **kw)
        rp = {'fn': 'mc.props.c11:t_long', 'mode': 'plain', 'params': {'which': mi}}
        acc.states += 1
        verdicts = set()
        for w in wordlist:
            full, confs_full = tm.run(delta, q0, qa, qr, blank, w, 20000)
            steps = len(confs_full) - 1
            acc.mx('max_steps_of_a_halting_run', steps if full is not None else 0)
            for k in sorted({max(steps - 1, 0), steps, steps + 1, 20000, 127, 128, 129, 255, 256, 257}):
                exp, confs = tm.run(delta, q0, qa, qr, blank, w, k)
                verdicts.add(exp)
                inst = {'tm': name, 'word': '%s (length %d)' % (w[:12], len(w)), 'max_steps': k, 'steps_of_the_run': steps}
                ok, got = core.lib_call(acc, 'tm_accepts_word', inst, tm_accepts_word, T, w, k, repro=rp)
                acc.transitions += 1
                if ok:
                    acc.evals += 1
                    acc.validated += 1
                    if got is not exp:
                        acc.viol('tm_accepts_word', 'verdict differs from the Sipser step semantics', inst, repro=rp, observed=got, expected=exp)
                ok, tr = core.lib_call(acc, 'tm_simulate_word', inst, tm_simulate_word, T, w, k, repro=rp)
                acc.transitions += 1
                if ok:
                    acc.evals += 1
                    with core.inspecting(acc, 'tm_simulate_word', inst, repro=rp):
                        msg = judge_trace(tr, confs, exp, k, w, q0, qa, qr, blank)
                        if msg:
                            acc.viol('tm_simulate_word', msg, inst, repro=rp, observed=[[q, ''.join(t)[:40], h] for (q, t, h) in tr][-3:])
        if len(verdicts) >= 2:
            acc.nontrivial += 1


def t_long_space(acc, w, g, n_in, budget, shard, nshard, stride=1, offset=0):
    """Wave 6: every small machine on ONE long input (a^n_in) with a budget of several thousand steps: halting runs longer
    than any sampling interval of a loop detector, produced by the smallest machines."""
    from gambatools.tm_algorithms import tm_accepts_word, tm_simulate_word
    for idx, spec in tm.tms(w, g):
        if idx % stride != offset % stride or (idx // stride) % nshard != shard:
            continue
        Q, sigma, gamma, delta, q0, qa, qr, blank = tm.parts(spec, '_')
        word = sigma[0] * n_in
        exp, confs = tm.run(delta, q0, qa, qr, blank, word, budget)
        steps = len(confs) - 1
        acc.states += 1
        if steps < 300:
            continue                  # short runs are the business of the exhaustive layers
        acc.c['machines_running_300_steps_or_more'] += 1
        if exp is not None:
            acc.nontrivial += 1
            acc.mx('max_steps_of_a_halting_run', steps)
        T = tm.build(spec, '_')
        rp = {'fn': 'mc.props.c11:one_long', 'mode': 'plain', 'params': {'spec': spec, 'n_in': n_in, 'budget': budget}}
        inst = {'tm': tm.show(spec, '_'), 'word': '%s^%d' % (sigma[0], n_in), 'max_steps': budget, 'steps_of_the_run': steps}
        ok, got = core.lib_call(acc, 'tm_accepts_word', inst, tm_accepts_word, T, word, budget, repro=rp)
        acc.transitions += 1
        if ok:
            acc.evals += 1
            acc.validated += 1
            if got is not exp:
                acc.viol('tm_accepts_word', 'verdict differs from the Sipser step semantics', inst, repro=rp, observed=got, expected=exp)
        if idx % 5 == 0:
            ok, tr = core.lib_call(acc, 'tm_simulate_word', inst, tm_simulate_word, T, word, budget, repro=rp)
            acc.transitions += 1
            if ok:
                acc.evals += 1
                with core.inspecting(acc, 'tm_simulate_word', inst, repro=rp):
                    msg = judge_trace(tr, confs, exp, budget, word, q0, qa, qr, blank)
                    if msg:
                        acc.viol('tm_simulate_word', msg, inst, repro=rp)


def one_long(acc, spec, n_in, budget):
    spec = tup(spec)
    # replay: a one-machine "space"
    orig = tm.tms
    try:
        tm.tms = lambda w, g: iter([(0, spec)])
        t_long_space(acc, spec[1], spec[2], n_in, budget, 0, 1)
    finally:
        tm.tms = orig


def t_space(acc, w, g, L, shard, nshard, stride=1, offset=0, budgets=BUDGETS, blank='_'):
    if w == 0:
        for spec in tm.tm_halting_start(g):
            check(acc, spec, L, tuple(budgets), blank)
        return
    for idx, spec in tm.tms(w, g):
        if idx % stride == offset % stride and (idx // stride) % nshard == shard:
            check(acc, spec, L, tuple(budgets), blank)


def plan(tier, seed):
    tasks = []
    P = 'mc.props.c11:t_space'

    def add(w, g, L, ns, stride=1, budgets=BUDGETS, blank='_'):
        tasks.extend(('plain', P, {'w': w, 'g': g, 'L': L, 'shard': s, 'nshard': ns, 'stride': stride, 'offset': seed, 'budgets': list(budgets), 'blank': blank}) for s in range(ns))

    tasks.extend(('plain', 'mc.props.c11:t_long', {'which': i_}) for i_ in range(4))
    tasks.extend(('plain', 'mc.props.c11:t_long_space', {'w': 2, 'g': 2, 'n_in': 1100, 'budget': 4500, 'shard': s_, 'nshard': 32, 'stride': 16 if tier == 'quick' else 1, 'offset': seed}) for s_ in range(32))
    tasks.extend(('plain', 'mc.props.c11:t_long_space', {'w': 1, 'g': 3, 'n_in': 1100, 'budget': 4500, 'shard': s_, 'nshard': 16, 'stride': 4 if tier == 'quick' else 1, 'offset': seed}) for s_ in range(16))
    add(0, 2, 2, 1)
    add(0, 3, 1, 1, blank='□')
    add(1, 2, 3, 1)
    add(1, 2, 2, 1, budgets=(0, 1, 2, 3, 50, 1000), blank='□')
    tasks.append(('plain', 'mc.props.c11:t_variants', {'w': 1, 'g': 2, 'L': 2, 'shard': 0, 'nshard': 1}))
    tasks.extend(('plain', 'mc.props.c11:t_variants', {'w': 1, 'g': 3, 'L': 2, 'shard': s_, 'nshard': 8, 'budgets': [0, 1, 2, 3, 5]}) for s_ in range(8))
    tasks.extend(('plain', 'mc.props.c11:t_variants', {'w': 2, 'g': 2, 'L': 2, 'shard': s_, 'nshard': 16, 'stride': 8 if tier == 'quick' else 1, 'offset': seed, 'budgets': [0, 1, 2, 3, 5]}) for s_ in range(16))
    if tier == 'quick':
        add(1, 3, 2, 8)
        add(2, 2, 2, 32, stride=4)
        bounds = 'TM(0,g), TM(1,2) x words <= 3, TM(1,3) x words <= 2, TM(2,2) stride 1/4 x words <= 2; budgets 0..8 (and 50, 1000 on TM(1,2)); blank _ and □'
    else:
        add(1, 3, 3, 16)
        add(2, 2, 3, 64)
        add(2, 2, 2, 32, stride=8, budgets=(0, 3, 9, 12, 16, 1000))
        bounds = 'TM(0,g), TM(1,2), TM(1,3), TM(2,2) (83 521) x words <= 3; budgets 0..8 (+ larger budgets on a stride)'
    return {'tasks': tasks, 'bounds': {'spaces': bounds}, 'exhaustive': True,
            'rule': 'every machine with w working states and g tape symbols (each delta cell undefined or (target, write, L/R)) x every input word x every step budget; verdict and configuration sequence vs a 15-line Sipser step function; non-trivial = machine on which at least two of accept / reject / undecided occur',
            'assumptions': ['head position after an implicit reject is not specified and not compared', 'tapes compared modulo trailing blanks', 'every machine also with delta inserted symbol by symbol, with working states named a, b / q1, q10, and with blanks _, □, # alternating within one process', 'wave 5: four long-running machines (a^n b^n by crossing off up to n = 20, a binary counter, a shifter that moves its data across blanks, a runner over up to 700 cells): runs of up to several thousand steps, budgets around the run length and around 128 / 256', 'wave 6: every TM(2,2) (quick: stride 1/16) and TM(1,3) (quick: 1/4) machine on a^1100 with a budget of 4500 steps (runs of 300+ steps are compared)']}
