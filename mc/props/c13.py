"""C13 - the library's own answers pass its checkers: generator -> printer -> parser -> checker composed exactly as
notebooks/make_notebook.py does it, for every reference object of the spaces."""
import json
import os
import shutil
import tempfile

from mc import core, load, spaces
from mc.oracles import fa, rx, cfg, pda, tm
from mc.props import c17

_TMP = None


def tmpdir():
    global _TMP
    if _TMP is None or not os.path.isdir(_TMP):
        _TMP = tempfile.mkdtemp(prefix='gv_c13_', dir='/dev/shm' if os.path.isdir('/dev/shm') and os.access('/dev/shm', os.W_OK) else None)
    return _TMP


def cleanup():
    global _TMP
    if _TMP and os.path.isdir(_TMP):
        shutil.rmtree(_TMP, ignore_errors=True)
    _TMP = None


def tup(x):
    return tuple(tup(y) for y in x) if isinstance(x, list) else x


def write(name, text):
    p = os.path.join(tmpdir(), name)
    with open(p, 'w', encoding='utf8') as f:
        f.write(text)
    return p


def verdict(f, *args):
    with core.captured_stdout() as buf:
        f(*args)
    out = buf.getvalue().strip()
    return out.split('\n')[0].strip() == 'OK', out[:300]


def apply_command(cmd, args):
    return load.make_notebook().apply_command(cmd, args)


def text_of(desc):
    d, t = c17.canonical_lines(desc)
    return '\n'.join(d + t)


def run_exercise(acc, ex, inst, rp, produce, checker, cargs):
    """produce() -> answer text via make_notebook.apply_command; checker(*cargs(answer)) must print OK."""
    acc.transitions += 1
    try:
        answer = produce()
    except RuntimeError as e:
        if 'not in simple format' in str(e):
            # exercise set-up, not library behaviour: the phase needs more than 26 variables, so the notebook
            # generator cannot print an answer in the simple grammar format at all (DESIGN 4/C13 preconditions)
            acc.c['exercise_not_expressible_in_simple_format'] += 1
            return
        acc.viol(ex, 'answer generation raises', inst, repro=rp, error=core.describe_exc(e))
        return
    except Exception as e:
        acc.viol(ex, 'answer generation raises', inst, repro=rp, error=core.describe_exc(e))
        return
    ok, res = core.lib_call(acc, ex, dict(inst, answer=answer), verdict, checker, *cargs(answer), repro=rp, clause='checker raises')
    if not ok:
        return
    acc.evals += 1
    acc.validated += 1
    good, out = res
    if not good:
        acc.viol(ex, 'the checker rejects the answer computed by the library', dict(inst, answer=answer), repro=rp, observed=out)


# ---------------------------------------------------------------- DFA exercises
def check_dfa_ref(acc, spec, which, scheme='s', length=5, letters='ab'):
    import gambatools.notebook as nb
    import gambatools.notebook_dfa as nd
    rp = {'fn': 'mc.props.c13:one', 'mode': 'plain', 'params': {'kind': 'dfa', 'spec': spec, 'which': which, 'opt': [scheme, length, letters]}}
    desc = c17.desc_dfa(spec, scheme, letters)
    text = text_of(desc)
    f = write('ref.dfa', text)
    inst = {'dfa': text}
    acc.states += 1
    if len(desc.meta['Q']) >= 2 and desc.meta['Sigma']:
        acc.nontrivial += 1
    for ex in which:
        if ex == 'dfa-for-language':
            if acc.states % 5 == 0:
                # an earlier, rejected submission in the same session must not influence the verdict on the right answer
                try:
                    verdict(nb.check_dfa_language_from_words, 'initial z\nz z a', 'a aa b', length, 1)
                    verdict(nb.check_dfa_language_from_words, text, 'zzz', length, 1)
                except Exception:
                    pass
            run_exercise(acc, ex, inst, rp, lambda: apply_command('generate', [f, str(length)]), nb.check_dfa_language_from_words, lambda words: (apply_command('load', [f]), words, length, 0))
        elif ex == 'dfa-complement':
            run_exercise(acc, ex, inst, rp, lambda: apply_command('dfa_complement', [f]), nd.check_dfa_complement, lambda a: (text, a))
        elif ex == 'dfa-reverse':
            run_exercise(acc, ex, inst, rp, lambda: apply_command('dfa_reverse', [f]), nd.check_dfa_reverse, lambda a: (text, a, length))
        elif ex == 'dfa-minimal':
            run_exercise(acc, ex, inst, rp, lambda: apply_command('dfa_minimize', [f]), nd.check_dfa_minimal, lambda a: (text, a))
        elif ex == 'dfa-hopfcroft':
            run_exercise(acc, ex, inst, rp, lambda: apply_command('dfa_hopfcroft', [f]), nd.check_dfa_minimal, lambda a: (text, a))
        elif ex == 'dfa-to-regexp':
            run_exercise(acc, ex, inst, rp, lambda: apply_command('dfa2regexp', [f]), nb.check_dfa2regexp, lambda a: (text, a, length))
        elif ex == 'dfa-to-regexp-8':
            run_exercise(acc, 'dfa-to-regexp', inst, rp, lambda: apply_command('dfa2regexp', [f]), nb.check_dfa2regexp, lambda a: (text, a))


DFA_EX = ['dfa-for-language', 'dfa-complement', 'dfa-reverse', 'dfa-minimal', 'dfa-hopfcroft', 'dfa-to-regexp']


def check_dfa_pair(acc, s1, s2):
    import gambatools.notebook_dfa as nd
    rp = {'fn': 'mc.props.c13:one', 'mode': 'plain', 'params': {'kind': 'pair', 'spec': [s1, s2], 'which': None, 'opt': None}}
    t1 = text_of(c17.desc_dfa(s1, 's'))
    t2 = text_of(c17.desc_dfa(s2, 'r'))
    f1 = write('ref1.dfa', t1)
    f2 = write('ref2.dfa', t2)
    inst = {'dfa1': t1, 'dfa2': t2}
    acc.states += 1
    acc.nontrivial += 1
    for op in ('union', 'intersection', 'symmetric_difference'):
        run_exercise(acc, 'dfa-' + op, inst, rp, lambda: apply_command('dfa_' + op, [f1, f2]), getattr(nd, 'check_dfa_' + op), lambda a: (a, t1, t2))


# ---------------------------------------------------------------- NFA exercises
def check_nfa_ref(acc, spec, eps, scheme='s', length=4):
    import gambatools.notebook as nb
    import gambatools.notebook_nfa2dfa as n2
    rp = {'fn': 'mc.props.c13:one', 'mode': 'plain', 'params': {'kind': 'nfa', 'spec': spec, 'which': None, 'opt': [eps, scheme, length]}}
    desc = c17.desc_nfa(spec, eps, scheme)
    text = text_of(desc)
    f = write('ref.nfa', text)
    inst = {'nfa': text}
    acc.states += 1
    if len(spec[3]) >= 2:
        acc.nontrivial += 1
    run_exercise(acc, 'nfa-to-dfa', inst, rp, lambda: apply_command('nfa2dfa', [f]), n2.check_nfa2dfa, lambda a: (text, a))
    run_exercise(acc, 'nfa-for-language', inst, rp, lambda: apply_command('generate', [f, str(length)]), nb.check_nfa_language_from_words, lambda words: (apply_command('load', [f]), words, length, 0))


# ---------------------------------------------------------------- PDA / TM / regexp "for language" exercises
def check_pda_ref(acc, spec, length=3):
    import gambatools.notebook as nb
    rp = {'fn': 'mc.props.c13:one', 'mode': 'plain', 'params': {'kind': 'pda', 'spec': spec, 'which': None, 'opt': [length]}}
    text = text_of(c17.desc_pda(spec, ('x', 'y'), '_'))
    f = write('ref.pda', text)
    acc.states += 1
    acc.nontrivial += len(spec[4]) >= 2
    run_exercise(acc, 'pda-for-language', {'pda': text}, rp, lambda: apply_command('generate', [f, str(length)]), nb.check_pda_language_from_words, lambda words: (apply_command('load', [f]), words, length, 0))


def check_tm_ref(acc, spec, length=2):
    import gambatools.notebook as nb
    rp = {'fn': 'mc.props.c13:one', 'mode': 'plain', 'params': {'kind': 'tm', 'spec': spec, 'which': None, 'opt': [length]}}
    text = text_of(c17.desc_tm(spec, '_'))
    f = write('ref.tm', text)
    acc.states += 1
    acc.nontrivial += 1
    run_exercise(acc, 'tm-for-language', {'tm': text}, rp, lambda: apply_command('generate', [f, str(length)]), nb.check_tm_language_from_words, lambda words: (apply_command('load', [f]), words, length, 0))


def show_simple(r):
    t = r[0]
    if t in '01':
        return t
    if t == 's':
        return r[1]
    if t == '*':
        return '(' + show_simple(r[1]) + ')*'
    if t == '+':
        return '(' + show_simple(r[1]) + '+' + show_simple(r[2]) + ')'
    return '(' + show_simple(r[1]) + show_simple(r[2]) + ')'


def check_re_ref(acc, spec, length=4):
    import gambatools.notebook as nb
    rp = {'fn': 'mc.props.c13:one', 'mode': 'plain', 'params': {'kind': 're', 'spec': spec, 'which': None, 'opt': [length]}}
    text = show_simple(spec)
    f = write('ref.regexp', text)
    acc.states += 1
    acc.nontrivial += rx.nodes(spec) >= 4
    run_exercise(acc, 'regexp-for-language', {'regexp': text}, rp, lambda: apply_command('generate', [f, str(length)]), nb.check_regexp_language_from_words, lambda words: (apply_command('load', [f]), words, length))


# ---------------------------------------------------------------- grammar exercises
def grammar_text_lines(g):
    """The same grammar, one alternative per line, the lines of different variables interleaved (first alternatives of
    all variables, then second alternatives, ...; the start variable still owns the first line)."""
    by = {}
    order = []
    for l, rhs in g[3]:
        if l not in by:
            by[l] = []
            order.append(l)
        by[l].append(''.join(rhs) or 'ε')
    lines = []
    for i in range(max(len(v) for v in by.values())):
        for v in order:
            if i < len(by[v]):
                lines.append('{} -> {}'.format(v, by[v][i]))
    return '\n'.join(lines)


def grammar_text(g):
    by = {}
    order = []
    for l, rhs in g[3]:
        if l not in by:
            by[l] = []
            order.append(l)
        by[l].append(''.join(rhs) or 'ε')
    return '\n'.join('{} -> {}'.format(v, ' | '.join(by[v])) for v in order)


def check_cfg_ref(acc, spec, length=4, start='T'):
    import gambatools.notebook as nb
    import gambatools.notebook_chomsky as nc
    g = None
    spec = cfg.start_first(spec)
    if cfg.normalise_simple(spec):
        lhs = {l for l, _ in spec[3]}
        terms = {x for _, rhs in spec[3] for x in rhs if x not in spec[1]}
        g = ('cfg', tuple(sorted(lhs)), tuple(sorted(terms)), spec[3], spec[4])
    if g is None or cfg.nonempty_word_variables(g) != set(g[1]):
        acc.c['grammar_degenerate_or_not_expressible'] += 1
        return
    rp = {'fn': 'mc.props.c13:one', 'mode': 'plain', 'params': {'kind': 'cfg', 'spec': spec, 'which': None, 'opt': [length, start]}}
    text = grammar_text(g)
    f = write('ref.cfg', text)
    inst = {'cfg': text}
    acc.states += 1
    acc.nontrivial += 1
    lang, _ = cfg.language(g, length)
    allw = list(spaces.words(sorted(g[2]), 3))
    accepted = ' '.join((w or 'ε') for w in allw if w in lang)
    rejected = ' '.join((w or 'ε') for w in allw if w not in lang)
    run_exercise(acc, 'cfg-for-language', inst, rp, lambda: apply_command('load', [f]), nb.check_cfg_accepts_rejects, lambda a: (a, accepted, rejected))
    for p in range(1, 6):
        run_exercise(acc, 'cfg-to-chomsky phase %d' % p, dict(inst, start_variable=start), rp, lambda: apply_command('chomsky%d' % p, [f, start]), nc.cfg_check_chomsky, lambda a: (text, a, p, start, length))


def check_cnf_ref(acc, spec, L=4):
    import gambatools.notebook_cfg as ncfg
    spec = cfg.start_first(spec)
    if not cfg.normalise_simple(spec):
        acc.c['grammar_degenerate_or_not_expressible'] += 1
        return
    lhs = {l for l, _ in spec[3]}
    g = ('cfg', tuple(sorted(lhs)), tuple(sorted({x for _, rhs in spec[3] for x in rhs if x not in spec[1]})), spec[3], spec[4])
    if cfg.nonempty_word_variables(g) != set(g[1]) or cfg.is_cnf(g) is not None:
        acc.c['grammar_degenerate_or_not_expressible'] += 1
        return
    rp = {'fn': 'mc.props.c13:one', 'mode': 'plain', 'params': {'kind': 'cnf', 'spec': spec, 'which': None, 'opt': [L]}}
    text = grammar_text(g)
    f = write('ref.cfg', text)
    acc.states += 1
    lang, _ = cfg.language(g, L)
    ws = [w for w in sorted(lang, key=lambda w: (len(w), w)) if w]
    acc.nontrivial += bool(ws)
    for w in ws[:6]:
        inst = {'cfg': text, 'word': w}
        run_exercise(acc, 'cfg-cyk-algorithm', inst, rp, lambda: apply_command('cfg_cyk_matrix', [f, w]), ncfg.check_cyk_matrix, lambda a: (text, w, a))
        run_exercise(acc, 'cfg-derivation', inst, rp, lambda: apply_command('cfg_leftmost_derivation', [f, w]), ncfg.check_cfg_derivation, lambda a: (text, a, w, 'any'))
        run_exercise(acc, 'cfg-leftmost-derivation', inst, rp, lambda: apply_command('cfg_leftmost_derivation', [f, w]), ncfg.check_cfg_derivation, lambda a: (text, a, w))
        run_exercise(acc, 'cfg-rightmost-derivation', inst, rp, lambda: apply_command('cfg_rightmost_derivation', [f, w]), ncfg.check_cfg_derivation, lambda a: (text, a, w, 'rightmost'))
    # words outside the language: the CYK exercise still has an answer (the table), the verdict must be OK
    outside = [w for w in spaces.words(sorted(g[2]), 2) if w and w not in lang][:2]
    for w in outside:
        run_exercise(acc, 'cfg-cyk-algorithm', {'cfg': text, 'word': w}, rp, lambda: apply_command('cfg_cyk_matrix', [f, w]), ncfg.check_cyk_matrix, lambda a: (text, w, a))


# ---------------------------------------------------------------- shipped notebooks
def check_shipped(acc):
    root = os.path.join(load.REPO, 'notebooks', 'with-answers')
    old = os.getcwd()
    os.chdir(root)
    try:
        for fn in sorted(os.listdir(root)):
            if not fn.endswith('.ipynb'):
                continue
            with open(os.path.join(root, fn), encoding='utf8') as f:
                nbk = json.load(f)
            ns = {}
            acc.states += 1
            for cell in nbk['cells']:
                if cell['cell_type'] != 'code':
                    continue
                src = ''.join(cell['source'])
                first = src.strip().split('\n')[0]
                if first.startswith(('show', 'simulate', 'hide_code')):
                    continue
                is_check = first.startswith('check')
                with core.captured_stdout() as buf:
                    try:
                        exec(compile(src, fn, 'exec'), ns)
                    except Exception as e:
                        acc.viol('shipped notebook', 'cell raises', {'notebook': fn, 'cell': first[:100]}, error=core.describe_exc(e))
                        continue
                if is_check:
                    acc.transitions += 1
                    acc.evals += 1
                    out = buf.getvalue().strip()
                    if out.split('\n')[0].strip() != 'OK':
                        acc.viol('shipped notebook', 'a checker cell of a shipped with-answers notebook does not print OK', {'notebook': fn, 'cell': first[:100]}, observed=out[:300],
                                 repro={'fn': 'mc.props.c13:check_shipped', 'mode': 'plain', 'params': {}})
    finally:
        os.chdir(old)


# ---------------------------------------------------------------- tasks
def one(acc, kind, spec, which, opt):
    spec = tup(spec)
    try:
        if kind == 'dfa':
            check_dfa_ref(acc, spec, which, *opt)
        elif kind == 'pair':
            check_dfa_pair(acc, spec[0], spec[1])
        elif kind == 'nfa':
            check_nfa_ref(acc, spec, *opt)
        elif kind == 'pda':
            check_pda_ref(acc, spec, *opt)
        elif kind == 'tm':
            check_tm_ref(acc, spec, *opt)
        elif kind == 're':
            check_re_ref(acc, spec, *opt)
        elif kind == 'cfg':
            check_cfg_ref(acc, spec, *opt)
        elif kind == 'cnf':
            check_cnf_ref(acc, spec, *opt)
    finally:
        cleanup()


def t_space(acc, kind, space, shard, nshard, stride=1, offset=0, which=None, opt=None):
    try:
        if kind == 'shipped':
            check_shipped(acc)
            return
        if kind == 'dfa':
            gen = spaces.dfas(*space)
        elif kind == 'dfafam':
            gen = spaces.anchored_swap_family(*space)
        elif kind == 'pair':
            n1, n2, k = space
            size2 = spaces.dfa_size(n2, k)
            gen = ((i, (spaces.dfa_spec(n1, k, i // size2), spaces.dfa_spec(n2, k, i % size2))) for i in range(spaces.dfa_size(n1, k) * size2))
        elif kind == 'nfa':
            gen = spaces.nfas(*space)
        elif kind == 'pda':
            gen = pda.pdas(*space)
        elif kind == 'tm':
            gen = tm.tms(*space)
        elif kind == 're':
            gen = rx.trees_up_to(*space)
        elif kind == 'cfg':
            gen = cfg.cfg2(space[0] == 'cfg2+')
        else:
            gen = cfg.cnf3(*space)
        for idx, spec in gen:
            if idx % stride != offset % stride or (idx // stride) % nshard != shard:
                continue
            if kind in ('dfa', 'dfafam'):
                check_dfa_ref(acc, spec, which or DFA_EX, *(opt or []))
            elif kind == 'pair':
                check_dfa_pair(acc, spec[0], spec[1])
            elif kind == 'nfa':
                check_nfa_ref(acc, spec, *(opt or ['_']))
            elif kind == 'pda':
                check_pda_ref(acc, spec)
            elif kind == 'tm':
                check_tm_ref(acc, spec)
            elif kind == 're':
                check_re_ref(acc, spec)
            elif kind == 'cfg':
                check_cfg_ref(acc, spec, *(opt or []))
            else:
                check_cnf_ref(acc, spec)
        if acc.states and not acc.samples:
            acc.sample({'kind': kind, 'space': space, 'exercises': which or 'all of the kind'})
    finally:
        cleanup()


def plan(tier, seed):
    tasks = []
    q = tier == 'quick'

    def add(kind, space, nshard, stride=1, which=None, opt=None):
        tasks.extend(('plain', 'mc.props.c13:t_space', {'kind': kind, 'space': space, 'shard': s, 'nshard': nshard, 'stride': stride, 'offset': seed, 'which': which, 'opt': opt}) for s in range(nshard))

    add('shipped', None, 1)
    noreg = [e for e in DFA_EX if e != 'dfa-to-regexp']
    for (n, k) in ((1, 1), (1, 2), (2, 1), (2, 2), (3, 1), (1, 3)):
        add('dfa', [n, k], 2)
    add('dfa', [2, 3], 4)
    add('dfa', [3, 3], 16, stride=64 if q else 8, which=[e for e in DFA_EX if e != 'dfa-to-regexp'])
    add('dfa', [3, 3], 16, stride=256 if q else 32, which=['dfa-to-regexp'])
    add('dfa', [2, 1], 1, which=['dfa-to-regexp-8'])
    add('dfa', [2, 2], 4, which=['dfa-to-regexp-8'], stride=1 if not q else 4)
    add('dfa', [3, 2], 16, which=noreg, stride=2 if q else 1)
    add('dfa', [3, 2], 16, which=['dfa-to-regexp'], stride=8 if q else 1)
    add('dfa', [2, 2], 2, opt=['q', 5])
    # wave 5: names around a decimal carry / substrings / non-decimal digits / generated-looking / keyword-like; an alphabet
    # whose words spell tokens (eps); five letters
    for sch in ('f', 't', 'u', 'g', 'K'):
        add('dfa', [2, 2], 2, opt=[sch, 4], stride=1 if not q else 2)
        add('dfa', [2, 1], 1, opt=[sch, 5])
    add('dfa', [1, 3], 1, opt=['s', 4, 'eps'])
    add('dfafam', [10], 16, stride=4 if q else 1, which=['dfa-minimal', 'dfa-hopfcroft'], opt=['s', 3, 'w'])     # 13 pairwise distinguishable states
    add('dfafam', [13], 16, stride=16 if q else 2, which=['dfa-minimal', 'dfa-hopfcroft'], opt=['q', 3, 'w'])    # 16 states
    add('dfa', [2, 1], 1, opt=['n', 4], which=['dfa-for-language', 'dfa-complement', 'dfa-to-regexp'])
    add('dfa', [2, 3], 4, opt=['s', 3, 'eps'], stride=1 if not q else 4)
    add('dfa', [1, 5], 1, opt=['s', 2, 'w'], which=noreg)
    add('dfa', [2, 5], 16, opt=['s', 2, 'w'], which=noreg, stride=16 if not q else 128)
    add('pair', [1, 1, 1], 1)
    add('pair', [2, 2, 1], 2)
    add('pair', [2, 1, 2], 1)
    add('pair', [2, 2, 2], 16, stride=4 if q else 1)
    add('pair', [3, 2, 1], 8, stride=2 if q else 1)
    for eps in ('_', 'ε'):
        add('nfa', [1, 1, None], 1, opt=[eps])
        add('nfa', [2, 1, None], 4, opt=[eps])
        add('nfa', [2, 2, 4 if q else None], 16, opt=[eps], stride=2 if q else 1)
    add('nfa', [3, 1, 3], 8, opt=['_'])
    add('cfg', ['cfg2'], 32, stride=16 if q else 2)
    add('cfg', ['cfg2+'], 32, stride=16 if q else 2)
    add('cnf', [4 if q else 5], 32)
    return {'tasks': tasks, 'bounds': {'spaces': 'DFA(n<=2,k<=3), DFA(3,1) all exercises; DFA(3,3) strided; DFA(3,2){}; pairs DFA(n<=2)^2{}, DFA(3,1)xDFA(2,1); NFA(1,1), NFA(2,1), NFA(2,2{}) with eps _ and ε, NFA(3,1,<=3); non-degenerate expressible grammars of CFG2 / CFG2+ (stride 1/{}) and CNF(3) with <= {} rules; the 19 shipped with-answers notebooks'.format(
        ' stride 1/2 (regexp exercise 1/8)' if q else '', ' (k=2 stride 1/4)' if q else '', ',<=4' if q else '', 16 if q else 2, 4 if q else 5)},
            'exhaustive': True,
            'rule': 'for every reference object: the answer is computed by notebooks/make_notebook.apply_command from a temp file exactly as the notebook generator does, and handed to the checker call of the template; the verdict line must be OK; non-trivial = reference with >= 2 states / transitions / a generated word',
            'assumptions': ['instance preconditions decided by oracle code: alphabet without 0/1 for the regexp exercise, grammar expressible in the simple format and non-degenerate (every variable derives a non-empty word), CYK/derivation words non-empty', 'wave 5: DFA references with names q9/q10, substrings, non-decimal digits, start/start2, keywords in another case; alphabets {e,p,s} (words spell eps) and five letters', 'wave 6: the anchored-swap family (13 and 16 pairwise distinguishable states over four letters) as references of the minimisation exercises']}
