"""C17 - parsers build exactly what was written (any line order, optional declarations, comments, several
labels per line, documented defaults) and reject malformed descriptions; no parser returns an invalid object."""
import collections
import itertools

from mc import core, spaces
from mc.oracles import fa, pda, tm
from mc.props import c16


def tup(x):
    return tuple(tup(y) for y in x) if isinstance(x, list) else x


# ---------------------------------------------------------------- descriptions
class Desc(object):
    """A known automaton as declaration lines + labelled edges, with the rules for what may be omitted."""

    def __init__(self, kind, decls, edges, omissible, expected, meta):
        self.kind = kind
        self.decls = decls            # OrderedDict name -> list of words
        self.edges = edges            # list of (p, q, [labels])
        self.omissible = omissible    # list of sets of declaration names that may be dropped together
        self.expected = expected      # field dict (c16.f_*)
        self.meta = meta


def parser_of(kind):
    if kind == 'dfa':
        from gambatools.dfa_algorithms import parse_dfa
        return parse_dfa, c16.f_dfa
    if kind == 'nfa':
        from gambatools.nfa_algorithms import parse_nfa
        return parse_nfa, c16.f_nfa
    if kind == 'pda':
        from gambatools.pda_algorithms import parse_pda
        return parse_pda, c16.f_pda
    from gambatools.tm_algorithms import parse_tm
    return parse_tm, c16.f_tm


def subsets(names):
    names = sorted(names)
    for r in range(len(names) + 1):
        for c in itertools.combinations(names, r):
            yield set(c)


def desc_dfa(spec, scheme='s', letters='ab'):
    Q, Sg, delta, q0, F = spaces.dfa_parts(spec, scheme, letters)
    edges = collections.OrderedDict()
    for (p, a), q in sorted(delta.items()):
        edges.setdefault((p, q), []).append(a)
    decls = collections.OrderedDict([('states', Q), ('input_symbols', Sg), ('initial', [q0]), ('final', F)])
    om = set()
    used = {q0} | set(F) | {p for (p, _) in edges} | {q for (_, q) in edges}
    if used == set(Q):
        om.add('states')
    if Sg and Q:
        om.add('input_symbols')      # total: every symbol is used
    if not F:
        om.add('final')
    exp = {'Q': set(Q), 'Sigma': set(Sg), 'delta': dict(delta), 'q0': q0, 'F': set(F)}
    return Desc('dfa', decls, [(p, q, ls) for (p, q), ls in edges.items()], list(subsets(om)), exp, {'Q': Q, 'Sigma': Sg})


def desc_nfa(spec, eps, scheme='s'):
    Q, Sg, T, q0, F = spaces.nfa_parts(spec, scheme, eps)
    edges = collections.OrderedDict()
    for (p, a, q) in sorted(T):
        edges.setdefault((p, q), []).append(a)
    decls = collections.OrderedDict([('states', Q), ('input_symbols', Sg), ('initial', [q0]), ('final', F), ('epsilon', [eps])])
    om = set()
    used = {q0} | set(F) | {p for (p, _, _) in T} | {q for (_, _, q) in T}
    if used == set(Q):
        om.add('states')
    if {a for (_, a, _) in T if a != eps} == set(Sg):
        om.add('input_symbols')
    if not F:
        om.add('final')
    default = 'ε' if any('ε' in a for (_, a, _) in T) else '_'
    if default == eps:
        om.add('epsilon')
    oms = []
    for s in subsets(om):
        # without an epsilon line the used-symbol computation uses the default epsilon: keep combinations consistent
        oms.append(s)
    exp = {'Q': set(Q), 'Sigma': set(Sg), 'delta': set(T), 'q0': q0, 'F': set(F), 'epsilon': eps}
    return Desc('nfa', decls, [(p, q, ls) for (p, q), ls in edges.items()], oms, exp, {'Q': Q, 'Sigma': Sg, 'eps': eps})


def desc_pda(spec, stack, eps, scheme='s'):
    Q, Sg, Gm, T, q0, F = pda.parts(spec, stack, scheme)
    edges = collections.OrderedDict()
    for (p, a, u, q, v) in sorted(T):
        edges.setdefault((p, q), []).append('{},{}{}'.format(a or eps, u or eps, v or eps))
    decls = collections.OrderedDict([('states', Q), ('input_symbols', Sg), ('stack_symbols', Gm), ('initial', [q0]), ('final', F), ('epsilon', [eps])])
    om = set()
    used = {q0} | set(F) | {t[0] for t in T} | {t[3] for t in T}
    if used == set(Q):
        om.add('states')
    if {t[1] for t in T if t[1]} == set(Sg):
        om.add('input_symbols')
    if ({t[2] for t in T} | {t[4] for t in T}) - {''} == set(Gm):
        om.add('stack_symbols')
    if not F:
        om.add('final')
    default = 'ε' if any('ε' in l for ls in edges.values() for l in ls) else '_'
    if default == eps:
        om.add('epsilon')
    exp = {'Q': set(Q), 'Sigma': set(Sg), 'Gamma': set(Gm), 'delta': {(p, a or eps, u or eps, q, v or eps) for (p, a, u, q, v) in T}, 'q0': q0, 'F': set(F), 'epsilon': eps}
    return Desc('pda', decls, [(p, q, ls) for (p, q), ls in edges.items()], list(subsets(om)), exp, {'Q': Q, 'Sigma': Sg, 'Gamma': Gm, 'eps': eps})


def desc_tm(spec, blank, default_names=False, kw=None):
    Q, sigma, gamma, delta, q0, qa, qr, blank = tm.parts(spec, blank, **(kw or {}))
    if default_names:
        ren = {'qa': 'accept', 'qr': 'reject'}
        Q = [ren.get(q, q) for q in Q]
        delta = {(ren.get(p, p), a): (ren.get(q, q), b, d) for (p, a), (q, b, d) in delta.items()}
        q0, qa, qr = ren.get(q0, q0), 'accept', 'reject'
    edges = collections.OrderedDict()
    for (p, a), (q, b, d) in sorted(delta.items()):
        edges.setdefault((p, q), []).append('{}{},{}'.format(a, b, d))
    decls = collections.OrderedDict([('states', Q), ('initial', [q0]), ('accept', [qa]), ('reject', [qr]), ('input_symbols', sigma), ('tape_symbols', gamma), ('blank', [blank])])
    used_tape = {a for (_, a) in delta} | {v[1] for v in delta.values()}
    used_states = {q0} | {p for (p, _) in delta} | {v[0] for v in delta.values()}
    om_sets = [set()]
    base = set()
    if used_tape | {blank} == set(gamma):
        base.add('tape_symbols')
    default = '□' if any('□' in l for ls in edges.values() for l in ls) else '_'
    if default == blank:
        base.add('blank')
    oms = []
    for s in subsets(base):
        oms.append(set(s))
        # input_symbols may be left out when Sigma = tape symbols - blank, whatever way the tape symbols are known
        if set(sigma) == set(gamma) - {blank} and sigma:
            oms.append(set(s) | {'input_symbols'})
    if default_names and used_states | {qa, qr} == set(Q):
        # the builder's default names: only when no states line is given (then states = used states + accept + reject)
        for s in list(oms):
            oms.append(s | {'states', 'accept', 'reject'})
            oms.append(s | {'states', 'accept'})
            oms.append(s | {'states', 'reject'})
    elif used_states | {qa, qr} == set(Q):
        for s in list(oms):
            oms.append(s | {'states'})
    exp = {'Q': set(Q), 'Sigma': set(sigma), 'Gamma': set(gamma), 'delta': dict(delta), 'q0': q0, 'accept': qa, 'reject': qr, 'blank': blank}
    return Desc('tm', decls, [(p, q, ls) for (p, q), ls in edges.items()], oms, exp, {'Q': Q, 'Sigma': sigma, 'Gamma': gamma, 'blank': blank})


# ---------------------------------------------------------------- rendering
def orders(keep):
    if len(keep) <= 4:
        for p in itertools.permutations(keep):
            yield list(p)
    else:
        n = len(keep)
        for i in range(n):
            r = keep[i:] + keep[:i]
            yield r
            yield list(reversed(r))


def trans_variants(edges):
    yield ['{} {} {}'.format(p, q, ' '.join(ls)) for (p, q, ls) in edges]
    yield ['{} {} {}'.format(p, q, l) for (p, q, ls) in reversed(edges) for l in ls]


def decorate(lines, deco):
    if deco == 0:
        return '\n'.join(lines)
    if deco == 1:
        return '\n'.join(['% a comment line', ''] + ['   ' + l + '  ' for l in lines] + ['', '  % the end'])
    return '\n'.join(l.replace(' ', '\t') + '\r' for l in lines) + '\n'


def layouts(desc):
    """Yields (layout id, text) for every well-formed rendering of the description."""
    names = list(desc.decls)
    lid = 0
    seen_drop = []
    for drop in desc.omissible:
        if drop in seen_drop:
            continue
        seen_drop.append(drop)
        keep = [n for n in names if n not in drop]
        for perm in orders(keep):
            d = ['{} {}'.format(n, ' '.join(desc.decls[n])).rstrip() for n in perm]
            for tl in trans_variants(desc.edges):
                for mode in ('after', 'before', 'interleave'):
                    if mode == 'after':
                        lines = d + tl
                    elif mode == 'before':
                        lines = tl + d
                    else:
                        lines = []
                        for i in range(max(len(d), len(tl))):
                            if i < len(tl):
                                lines.append(tl[i])
                            if i < len(d):
                                lines.append(d[i])
                    for deco in range(3):
                        yield lid, decorate(lines, deco)
                        lid += 1


def canonical_lines(desc):
    d = ['{} {}'.format(n, ' '.join(ws)).rstrip() for n, ws in desc.decls.items()]
    t = ['{} {} {}'.format(p, q, l) for (p, q, ls) in desc.edges for l in ls]
    return d, t


# ---------------------------------------------------------------- faults
def faults(desc):
    """Yields (fault class, text): single-fault corruptions of the fully declared canonical text."""
    d, t = canonical_lines(desc)
    kind = desc.kind
    Q = desc.meta['Q']

    def text(dl, tl):
        return '\n'.join(dl + tl)

    # no initial / two initial states
    yield 'no initial state', text([l for l in d if not l.startswith('initial')], t)
    yield 'initial line without a state', text([('initial' if l.startswith('initial') else l) for l in d], t)
    if len(Q) >= 2:
        yield 'two initial states', text([('initial {} {}'.format(Q[0], Q[1]) if l.startswith('initial') else l) for l in d], t)
    # repeated declarations
    for i, l in enumerate(d):
        yield 'repeated declaration ' + l.split()[0], text(d + [l], t)
        yield 'repeated declaration ' + l.split()[0], text(d[:i + 1] + [l] + d[i + 1:], t)
    # duplicate entry inside a state list
    for name in ('states', 'final'):
        ws = desc.decls.get(name)
        if ws:
            yield 'duplicate entry in ' + name, text([('{} {} {}'.format(name, ' '.join(ws), ws[0]) if l.startswith(name) else l) for l in d], t)
    # undeclared state (states are declared in the canonical text)
    yield 'state outside states (final)', text([(l + ' zz9' if l.startswith('final') else l) for l in d], t)
    yield 'state outside states (initial)', text([('initial zz9' if l.startswith('initial') else l) for l in d], t)
    lab = {'dfa': None, 'nfa': None, 'pda': '{0},{0}{0}'.format(desc.meta.get('eps', '_')), 'tm': '{0}{0},R'.format(desc.meta.get('blank', '_'))}[kind]
    if kind in ('pda', 'tm'):
        yield 'state outside states (transition source)', text(d, t + ['zz9 {} {}'.format(Q[0], lab)])
        yield 'state outside states (transition target)', text(d, t + ['{} zz9 {}'.format(Q[0], lab)])
    elif kind == 'nfa':
        a = (desc.meta['Sigma'] or [desc.meta['eps']])[0]
        yield 'state outside states (transition source)', text(d, t + ['zz9 {} {}'.format(Q[0], a)])
        yield 'state outside states (transition target)', text(d, t + ['{} zz9 {}'.format(Q[0], a)])
    # ill-formed transitions
    yield 'two-word transition line', text(d, t + ['{} {}'.format(Q[0], Q[-1])])
    yield 'one-word line', text(d, t + ['{}'.format(Q[0])])
    yield 'state label not matching \\w+', text([l.replace(Q[0], Q[0] + '-x') for l in d], [l.replace(Q[0], Q[0] + '-x') for l in t])
    yield 'state label not matching \\w+ (transition only)', text(d, t + ['{{{}}} {} {}'.format(Q[0], Q[0], lab or 'a')])
    if kind == 'pda':
        e = desc.meta['eps']
        for bad in ('a,x', 'ab,xx', 'a{0}{0}'.format(e), 'a,{0}{0}{0}'.format(e), ',{0}{0}'.format(e), 'ab,R', '{0}{0},L'.format(e), 'abxx'):
            yield 'label of the wrong shape', text(d, t + ['{} {} {}'.format(Q[0], Q[0], bad)])
        yield 'symbol outside input_symbols', text(d, t + ['{} {} z,{}{}'.format(Q[0], Q[0], e, e)])
        yield 'symbol outside stack_symbols', text(d, t + ['{} {} {},{}z'.format(Q[0], Q[0], e, e)])
        yield 'symbol outside stack_symbols', text(d, t + ['{} {} {},z{}'.format(Q[0], Q[0], e, e)])
    if kind == 'tm':
        b = desc.meta['blank']
        for bad in ('a,R', '{0}{0}R'.format(b), '{0}{0},X'.format(b), '{0}{0},'.format(b), '{0}{0}{0},L'.format(b), '{0}{0},LR'.format(b), 'a,{0}{0}'.format(b), '{0},{0}{0}'.format(b), 'abxR', 'abR'):
            yield 'label of the wrong shape', text(d, t + ['{} {} {}'.format(Q[0], Q[0], bad)])
        yield 'symbol outside tape_symbols', text(d, t + ['{} {} z{},R'.format(Q[0], Q[0], b)])
        yield 'symbol outside tape_symbols', text(d, t + ['{} {} {}z,L'.format(Q[0], Q[0], b)])
        if 'accept' not in Q:
            yield 'two accept states', text([('accept qa qr' if l.startswith('accept') else l) for l in d], t)
            yield 'accept line without a state', text([('accept' if l.startswith('accept') else l) for l in d], t)
            yield 'reject line without a state', text([('reject' if l.startswith('reject') else l) for l in d], t)
    if kind == 'nfa':
        yield 'symbol outside input_symbols', text(d, t + ['{} {} z'.format(Q[0], Q[0])])
        yield 'empty epsilon declaration', text([('epsilon' if l.startswith('epsilon') else l) for l in d], t)
        yield 'two epsilon symbols', text([('epsilon _ e' if l.startswith('epsilon') else l) for l in d], t)
    if kind == 'dfa':
        Sg = desc.meta['Sigma']
        delta = desc.expected['delta']
        if Sg:
            yield 'symbol outside input_symbols', text(d, t + ['{} {} z'.format(Q[0], Q[0])])
            # not total: drop one label / one (p,a)
            for i, l in enumerate(t):
                yield 'missing (p,a)', text(d, t[:i] + t[i + 1:])
            # non-deterministic: second target for an existing (p,a)
            if len(Q) >= 2:
                for (p, a), q in sorted(delta.items()):
                    other = [x for x in Q if x != q][0]
                    yield 'duplicate (p,a) with another target', text(d, t + ['{} {} {}'.format(p, other, a)])
                    yield 'duplicate (p,a) with another target', text(d, ['{} {} {}'.format(p, other, a)] + t)
            # declared but unused symbol makes the automaton not total
            yield 'missing (p,a) for a declared symbol', text([(l + ' z' if l.startswith('input_symbols') else l) for l in d], t)
            yield 'state without outgoing transitions', text([(l + ' zz9' if l.startswith('states') else l) for l in d], t)


def prime_other_parsers(acc, kind, token):
    """Hands minimal descriptions that use `token` as their only transition label to the parsers of the other kinds (whatever they
    answer is not judged here - each kind is judged on its own descriptions); returns the kinds that accepted it."""
    took = []
    for k2 in ('nfa', 'dfa', 'pda', 'tm'):
        if k2 == kind:
            continue
        p2, _ = parser_of(k2)
        t2 = 'initial q0\naccept qa\nreject qr\nq0 qa {}'.format(token) if k2 == 'tm' else 'initial q0\nfinal q0\nq0 q0 {}'.format(token)
        try:
            core.IN_LIB = True
            p2(t2)
            took.append(k2)
        except core.WallClock:
            raise
        except Exception:
            pass
        finally:
            core.IN_LIB = False
        acc.c['priming_calls_of_other_parsers'] += 1
    acc.c['faulty_labels_first_accepted_by_another_parser'] += 1 if took else 0
    return took


def guarded(desc):
    """Corruptions caught today only by constructor assertions: verdict = raises, or returns a valid object."""
    d, t = canonical_lines(desc)
    kind = desc.kind
    if kind in ('nfa', 'pda'):
        e = desc.meta['eps']
        yield 'epsilon listed in input_symbols', '\n'.join([(l + ' ' + e if l.startswith('input_symbols') else l) for l in d] + t)
    if kind == 'pda':
        e = desc.meta['eps']
        yield 'epsilon listed in stack_symbols', '\n'.join([(l + ' ' + e if l.startswith('stack_symbols') else l) for l in d] + t)
    if kind == 'tm':
        b = desc.meta['blank']
        yield 'blank listed in input_symbols', '\n'.join([(l + ' ' + b if l.startswith('input_symbols') else l) for l in d] + t)
        yield 'input symbol missing from tape_symbols', '\n'.join([(l + ' z' if l.startswith('input_symbols') else l) for l in d] + t)
        yield 'accept equals reject', '\n'.join([('reject ' + desc.decls['accept'][0] if l.startswith('reject') else l) for l in d] + t)
        yield 'accept state not in states', '\n'.join([('accept zz9' if l.startswith('accept') else l) for l in d] + t)


# ---------------------------------------------------------------- validity of returned objects (oracle code)
def valid(kind, X):
    if kind == 'dfa':
        fa.from_lib_dfa(X, total=True)
    elif kind == 'nfa':
        fa.from_lib_nfa(X)
    elif kind == 'pda':
        pda.from_lib(X)
    else:
        Q, Sg, Gm = X.Q, X.Sigma, X.Gamma
        if X.q0 not in Q or X.q_accept not in Q or X.q_reject not in Q:
            raise fa.Malformed('q0/accept/reject not in Q')
        if X.q_accept == X.q_reject:
            raise fa.Malformed('accept = reject')
        if X.blank in Sg or X.blank not in Gm or not Sg <= Gm:
            raise fa.Malformed('blank/Sigma/Gamma inconsistent')
        for (p, a), v in X.delta.items():
            q, b, d = v
            if p not in Q or q not in Q or a not in Gm or b not in Gm or d not in ('L', 'R'):
                raise fa.Malformed('delta entry ({},{}) -> {} invalid'.format(p, a, v))


def check_desc(acc, desc, rp, inst0, layout_stride=1, layout_offset=0):
    parse, fields = parser_of(desc.kind)
    acc.states += 1
    n = 0
    for lid, text in layouts(desc):
        if lid % layout_stride != layout_offset % layout_stride:
            continue
        n += 1
        inst = dict(inst0, text=text)
        ok, X = core.lib_call(acc, parse.__name__, inst, parse, text, repro=rp, clause='well-formed description is rejected')
        acc.transitions += 1
        if not ok:
            continue
        acc.evals += 1
        acc.validated += 1
        try:
            got = fields(X)
        except Exception as e:
            acc.viol(parse.__name__, 'parsed object is malformed', inst, repro=rp, observed=core.describe_exc(e))
            continue
        if got != desc.expected:
            diff = [k for k in desc.expected if desc.expected[k] != got.get(k)]
            acc.viol(parse.__name__, 'parsed automaton differs from the described one', inst, repro=rp,
                     observed={k: got.get(k) for k in diff}, expected={k: desc.expected[k] for k in diff})
        try:
            valid(desc.kind, X)
        except Exception as e:
            acc.viol(parse.__name__, 'returns an object that violates its class invariants', inst, repro=rp, observed=str(e))
    acc.c['well_formed_texts'] += n
    canon = '\n'.join(sum(canonical_lines(desc), []))
    for fclass, text in faults(desc):
        if text == canon:
            continue                      # the fault does not apply to this description
        inst = dict(inst0, fault=fclass, text=text)
        acc.transitions += 1
        acc.c['faulty_texts'] += 1
        core.CALLS += 1
        if fclass == 'label of the wrong shape':
            # history: the same token is a well-formed label (or symbol) of ANOTHER kind of description; the other parsers see it first
            inst['parsed_before'] = prime_other_parsers(acc, desc.kind, text.split('\n')[-1].split()[-1])
        try:
            core.IN_LIB = True
            X = parse(text)
            core.IN_LIB = False
        except core.WallClock:
            core.IN_LIB = False
            acc.viol(parse.__name__, 'does not terminate (wall clock, to be confirmed)', inst, repro=rp, needs_confirmation=True)
            continue
        except Exception:
            core.IN_LIB = False
            acc.evals += 1
            continue
        acc.evals += 1
        acc.viol(parse.__name__, 'malformed description accepted: ' + fclass.split(' (')[0], inst, repro=rp, observed=str(X)[:300])
    for fclass, text in guarded(desc):
        inst = dict(inst0, fault=fclass, text=text)
        acc.transitions += 1
        acc.c['constructor_guarded_texts'] += 1
        try:
            X = parse(text)
        except Exception:
            acc.evals += 1
            continue
        acc.evals += 1
        try:
            valid(desc.kind, X)
        except Exception as e:
            acc.viol(parse.__name__, 'returns an object that violates its class invariants', inst, repro=rp, observed='{}: {}'.format(fclass, e))
    if len(desc.edges) >= 2:
        acc.nontrivial += 1
        if len(acc.samples) < 3 and n:
            acc.sample({'kind': desc.kind, 'one_layout': next(iter(layouts(desc)))[1], 'layouts': n})


def t_state_regex(acc, shard, nshard):
    """Non-default state label formats (set names {a,b}, pair names (a,b)) as the exercise checkers use them:
    well-formed texts parse to the described automaton, ill-formed labels are rejected - also after the same label was
    accepted under another state_regex earlier in the process."""
    from gambatools.dfa_algorithms import parse_dfa
    from gambatools.nfa_algorithms import parse_nfa
    from gambatools.automaton_algorithms import state_set_regex, state_product_regex, state_word_or_set_regex
    SETN = ['{}', '{s0}', '{s0,s1}', '{s1}']
    PAIRN = ['(s0,r0)', '(s0,r1)', '(s1,r0)', '(s1,r1)']
    n = 0
    for (n_, k) in ((1, 1), (2, 1), (2, 2)):
        for idx, spec in spaces.dfas(n_, k):
            n += 1
            if n % nshard != shard:
                continue
            acc.states += 1
            for names, regex, parser, label in ((SETN, state_set_regex(), parse_dfa, 'set names'), (PAIRN, state_product_regex(), parse_dfa, 'pair names'),
                                                 (SETN, state_word_or_set_regex(), parse_dfa, 'word-or-set names'), (['s0', '{s0,s1}', 's1'], state_word_or_set_regex(), parse_dfa, 'mixed names')):
                _, n2, k2, d, q0, fb = spec
                Q = names[:n2]
                Sg = spaces.LETTERS[:k2]
                delta = {}
                i = 0
                for q in Q:
                    for a in Sg:
                        delta[q, a] = Q[d[i]]
                        i += 1
                F = [Q[j] for j in range(n2) if fb >> j & 1]
                lines = ['states ' + ' '.join(Q), 'input_symbols ' + ' '.join(Sg), 'initial ' + Q[q0], ('final ' + ' '.join(F)).rstrip()] + ['{} {} {}'.format(p, q, a) for (p, a), q in delta.items()]
                text = '\n'.join(lines)
                inst = {'kind': 'dfa', 'state_labels': label, 'text': text}
                ok, X = core.lib_call(acc, 'parse_dfa', inst, parser, text, state_regex=regex, clause='well-formed description is rejected')
                acc.transitions += 1
                if ok:
                    acc.evals += 1
                    acc.validated += 1
                    if c16.f_dfa(X) != {'Q': set(Q), 'Sigma': set(Sg), 'delta': delta, 'q0': Q[q0], 'F': set(F)}:
                        acc.viol('parse_dfa', 'parsed automaton differs from the described one', inst, observed=str(X)[:300])
                # ill-formed labels under this format must be rejected
                for bad in ([Q[0] + '}', '{' + Q[0], Q[0][:-1], Q[0] + ',', '{s0;s1}', '{s0,s1}}', 'q0}'] if label != 'pair names' else ['(s0,r0', '(s0)', 's0,r0)', '(s0,r0,r1)', '(s0,r0))', '(s0, r0)']):
                    if bad in Q or (label in ('word-or-set names', 'mixed names') and bad.isalnum()):
                        continue
                    btext = '\n'.join(l.replace(Q[0], bad) if not l.startswith('input_symbols') else l for l in lines)
                    if btext == text:
                        continue
                    try:
                        Y = parser(btext, state_regex=regex)
                    except Exception:
                        acc.evals += 1
                        continue
                    acc.viol('parse_dfa', 'malformed description accepted: state label not matching the state format', dict(inst, text=btext, bad_label=bad), observed=str(Y)[:200])
                # the same names under the DEFAULT format are ill-formed, also after they were accepted above
                if label in ('set names', 'pair names'):
                    for pz in (parse_dfa, parse_nfa):
                        try:
                            Y = pz(text)
                        except Exception:
                            acc.evals += 1
                            continue
                        acc.viol(pz.__name__, 'malformed description accepted: state label not matching \\w+', inst, observed=str(Y)[:200])


def make_desc(kind, spec, opt):
    if kind == 'dfa':
        return desc_dfa(spec, opt or 's')
    if kind == 'nfa':
        return desc_nfa(spec, opt[0], opt[1] if len(opt) > 1 else 's')
    if kind == 'pda':
        return desc_pda(spec, tuple(opt[0]), opt[1], opt[2] if len(opt) > 2 else 's')
    return desc_tm(spec, opt[0], opt[1], opt[2] if len(opt) > 2 else None)


def one(acc, kind, spec, opt, layout_stride=1, layout_offset=0):
    spec = tup(spec)
    rp = {'fn': 'mc.props.c17:one', 'mode': 'plain', 'params': {'kind': kind, 'spec': spec, 'opt': opt, 'layout_stride': layout_stride, 'layout_offset': layout_offset}}
    check_desc(acc, make_desc(kind, spec, opt), rp, {'kind': kind, 'spec': spec, 'opt': opt}, layout_stride, layout_offset)


def t_space(acc, kind, space, opt, shard, nshard, layout_stride=1, offset=0, stride=1):
    if kind == 'dfa':
        gen = spaces.dfas(*space)
    elif kind == 'nfa':
        gen = spaces.nfas(*space)
    elif kind == 'pda':
        gen = pda.pdas(*space)
    else:
        gen = tm.tms(*space)
    for idx, spec in gen:
        if idx % stride == offset % stride and (idx // stride) % nshard == shard:
            one(acc, kind, spec, opt, layout_stride, offset + idx)


def plan(tier, seed):
    tasks = []
    q = tier == 'quick'

    def add(kind, space, opt, nshard, layout_stride=1, stride=1):
        tasks.extend(('plain', 'mc.props.c17:t_space', {'kind': kind, 'space': space, 'opt': opt, 'shard': s, 'nshard': nshard, 'layout_stride': layout_stride, 'offset': seed, 'stride': stride}) for s in range(nshard))

    add('dfa', [1, 1], 's', 1)
    add('dfa', [1, 2], 's', 1)
    add('dfa', [2, 1], 's', 2)
    add('dfa', [2, 2], 's', 16, 2 if q else 1)
    add('dfa', [2, 0], 'q', 1)
    add('dfa', [3, 1], 'q', 8, 8 if q else 2)
    for eps in ('_', 'ε', 'e'):
        add('nfa', [1, 1, None], [eps], 1, 2)
        add('nfa', [2, 1, 3], [eps], 16, 16 if q else 4)
        add('nfa', [2, 2, 2], [eps, 'q'], 8, 16 if q else 4)
    tasks.extend(('plain', 'mc.props.c17:t_state_regex', {'shard': s_, 'nshard': 4}) for s_ in range(4))
    add('nfa', [2, 1, 2], ['_', 'k'], 4, 16 if q else 4)
    add('nfa', [2, 2, 2], ['ε', 'k'], 4, 32 if q else 8)
    add('pda', [1, 1, 1, 2], [['%'], '_', 'k'], 1, 8)
    add('pda', [2, 1, 1, 1], [['%'], 'ε', 'k'], 2, 16)
    add('tm', [1, 2], ['_', False, {'names': ['epsilon']}], 2, 8 if q else 2)
    add('tm', [1, 3], ['□', False, {'gamma': ['a', '%', '□'], 'sigma': ['a'], 'names': ['stack_symbols']}], 4, 64 if q else 16, 4 if q else 1)
    # wave 5: keywords in another letter case (Final, Initial, ...), names with non-decimal digit characters, generated-looking names
    for sch in ('K', 'u', 'g', 'n'):
        add('dfa', [2, 1], sch, 2, 2)
        add('dfa', [2, 2], sch, 8, 16 if q else 4)
        add('nfa', [2, 1, 2], ['_', sch], 4, 16 if q else 4)
        add('pda', [2, 1, 1, 1], [['x'], '_', sch], 2, 16)
    add('dfa', [3, 1], 'K', 8, 16 if q else 4)
    add('tm', [1, 2], ['_', False, {'names': ['Blank']}], 2, 8 if q else 2)
    add('tm', [1, 2], ['□', False, {'names': ['Accept']}], 2, 8 if q else 2)
    add('tm', [1, 3], ['_', False, {'gamma': ['a', '□', '_'], 'sigma': ['a'], 'names': ['Reject']}], 4, 64 if q else 16, 4 if q else 1)
    for (stack, eps) in ((['x'], '_'), (['$'], 'ε'), (['x'], 'e')):
        add('pda', [1, 1, 1, 3], [stack, eps], 2, 4)
        add('pda', [2, 1, 1, 2], [stack, eps], 16, 64 if q else 16)
    for blank in ('_', '□'):
        for dn in (False, True):
            add('tm', [1, 2], [blank, dn], 4, 8 if q else 2)
            add('tm', [1, 3], [blank, dn], 8, 64 if q else 16, 4 if q else 1)
    return {'tasks': tasks, 'bounds': {'spaces': 'DFA(n<=2,k<=2), DFA(3,1); NFA(1,1), NFA(2,1,<=3), NFA(2,2,<=2) with eps _, ε, e; PDA(1,1,1,<=3), PDA(2,1,1,<=2); TM(1,2), TM(1,3); layouts: every subset of the omissible declarations x declaration orders x transitions before/after/interleaved x grouped/one label per line x plain/comment+indent/tab+CRLF (strided per automaton as listed in counters); faults: one per class and position'},
            'exhaustive': True,
            'rule': 'every known automaton of the spaces rendered in every well-formed layout (layout stride per space, offset rotating with the instance index) must parse to exactly that automaton with the documented defaults; every single-fault corruption of its canonical text must raise; constructor-guarded corruptions must raise or yield a valid object; every returned object is re-validated by oracle code; non-trivial = automaton with >= 2 edges',
            'assumptions': ['only whole-line % comments are well formed', 'accept/reject lines are omitted only together with the states line and only for states literally named accept/reject',
                            'non-deterministic TM descriptions are not in the fault list (the property restricts that clause to DFAs)', 'state names that are keywords of other formats (accept, reject, blank for NFA / PDA; epsilon, stack_symbols for TM), % as stack / tape symbol, and the set / pair / word-or-set state label formats of the exercise checkers are part of the space', 'wave 5: state names that differ from a keyword only in letter case, names with non-decimal digits / outside latin-1, generated-looking names']}
