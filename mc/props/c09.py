"""C09 - PDA acceptance: sound for every limit, complete whenever every epsilon closure on the way fits the limit."""
from mc import core, spaces
from mc.oracles import pda

LIMITS = (1, 2, 3, 5, 8)


def tup(x):
    return tuple(tup(y) for y in x) if isinstance(x, list) else x


def check(acc, spec, L, limits=LIMITS, stack=('x', 'y'), eps='_', big=False, morph=False, exact=False):
    from gambatools.pda_algorithms import pda_accepts_word
    from gambatools.global_settings import GambaTools
    rp = {'fn': 'mc.props.c09:one', 'mode': 'plain', 'params': {'spec': spec, 'L': L, 'limits': list(limits), 'stack': list(stack), 'eps': eps, 'big': big, 'exact': exact}}
    if morph:
        rp = {'fn': 'mc.props.c09:t_space', 'mode': 'plain', 'params': dict(acc.data.get('ctx', {}), upto=spec)}
    R = pda.ref(spec, stack)
    ok, P = core.lib_call(acc, 'PDA()', {'pda': spec}, pda.morph if morph else pda.build, spec, stack, 's', eps, repro=rp)
    if not ok:
        return
    acc.states += 1
    cap = max(limits) + 1 if not exact else max(max(limits) + 1, 14)
    interesting = False
    old = GambaTools.pda_epsilon_closure_max_iterations
    try:
        for w in spaces.words(R.Sigma, L):
            exp = pda.accepts(R, w)
            verdict, complete, mx, sizes = pda.run_sets(R, w, cap)
            if complete and verdict is not exp:
                raise core.MachineryError('PDA oracles disagree on {} {!r}: saturation {} explicit {}'.format(spec, w, exp, verdict))
            acc.c['words_with_finite_closures' if complete else 'words_with_a_closure_above_cap'] += 1
            lims = list(limits)
            if exact and complete and exp and 1 <= mx <= cap - 1 and mx not in lims:
                lims.append(mx)          # the tightest limit at which completeness is still demanded: exactly the largest closure
            for lim in lims:
                GambaTools.pda_epsilon_closure_max_iterations = lim
                inst = {'pda': pda.show(spec, stack), 'word': w, 'limit': lim, 'epsilon': eps}
                if morph:
                    inst['presented_as'] = 'one live object rewritten in place after earlier queries'
                ok, got = core.lib_call(acc, 'pda_accepts_word', inst, pda_accepts_word, P, w, repro=rp)
                acc.transitions += 1
                if not ok:
                    continue
                acc.evals += 1
                acc.validated += 1
                if got is not True and got is not False:
                    acc.viol('pda_accepts_word', 'result is not a boolean', inst, repro=rp, observed=got)
                    continue
                if got and not exp:
                    acc.viol('pda_accepts_word', 'accepts a word that has no accepting computation', inst, repro=rp, observed=True, expected=False)
                premise = complete and mx <= lim
                acc.c['premise_true' if premise else 'premise_false'] += 1
                if premise and exp:
                    interesting = True
                    acc.c['premise_true_and_word_in_language'] += 1
                    if not got:
                        acc.viol('pda_accepts_word', 'rejects a word of the language although every epsilon closure fits the limit', inst, repro=rp,
                                 observed=False, expected=True, closure_sizes=sizes)
                if exp and not premise and not got:
                    acc.c['legitimately_missed_above_limit'] += 1
    finally:
        GambaTools.pda_epsilon_closure_max_iterations = old
    if interesting:
        acc.nontrivial += 1
        if len(spec[4]) >= 3:
            acc.sample(pda.show(spec, stack))


def one(acc, spec, L, limits, stack, eps, big=False, exact=False):
    check(acc, tup(spec), L, tuple(limits), tuple(stack), eps, big, exact=exact)


def t_space(acc, n, k, g, t, L, shard, nshard, stride=1, offset=0, limits=LIMITS, stack=('x', 'y'), eps='_', tmin=0, morph=False, upto=None):
    upto = tup(upto) if upto is not None else None
    if morph:
        pda._LIVE.clear()
        acc.data['ctx'] = {'n': n, 'k': k, 'g': g, 't': t, 'L': L, 'shard': shard, 'nshard': nshard, 'stride': stride, 'offset': offset, 'limits': list(limits),
                           'stack': list(stack), 'eps': eps, 'tmin': tmin, 'morph': True}
    for idx, spec in pda.pdas(n, k, g, t, tmin=tmin):
        if idx % stride == offset % stride and (idx // stride) % nshard == shard:
            check(acc, spec, L, tuple(limits), tuple(stack), eps, morph=morph)
            if upto is not None and spec == upto:
                break
    acc.data.clear()


def chain_family(n):
    """Thin deep family: epsilon chain s0 -> s1 -> ... -> s(n-1) of no-op moves, any subset of extra epsilon self-loops
    (no-op, or push x / pop x), optionally one letter move in front; F = {last}.  A closure has exactly n (+ few)
    configurations but many applicable epsilon steps."""
    k, g = 1, 1
    E, X = k, g           # indices of epsilon in the input / stack position
    chain = tuple((i, E, X, i + 1, X) for i in range(n - 1))
    loops = [(i, E, X, i, X) for i in range(n)]
    idx = 0
    import itertools
    for m in range(0, n + 1):
        for ls in itertools.combinations(loops, m):
            for front in (None, (0, 0, X, 0, X), (0, 0, X, 0, 0)):
                tr = chain + ls + ((front,) if front else ())
                yield idx, ('pda', n, k, g, tuple(sorted(set(tr))), 0, 1 << (n - 1))
                idx += 1


def t_deep(acc):
    """One deliberately large instance: a^n b with n pushes and n epsilon pops, limit above the default of 1000 and a
    closure between 1000 and the limit (a limit that is read once, e.g. at import, is only visible here)."""
    from gambatools.pda_algorithms import pda_accepts_word
    from gambatools.global_settings import GambaTools
    n = 1005
    # s0 -e,e->y s1 (bottom marker) ; s1 -a,e->x s1 ; s1 -b,e->e s2 ; s2 -e,x->e s2 ; s2 -e,y->e s3 ;  F = {s3}
    # (indices: letters a=0, b=1, eps=2; stack x=0, y=1, eps=2): the word a^n b is accepted only after n epsilon pops
    spec = ('pda', 4, 2, 2, ((0, 2, 2, 1, 1), (1, 0, 2, 1, 0), (1, 1, 2, 2, 2), (2, 2, 0, 2, 2), (2, 2, 1, 3, 2)), 0, 8)
    R = pda.ref(spec)
    P = pda.build(spec)
    rp = {'fn': 'mc.props.c09:t_deep', 'mode': 'plain', 'params': {}}
    old = GambaTools.pda_epsilon_closure_max_iterations
    try:
        assert pda.accepts(R, 'aab') and not pda.accepts(R, 'aa')
        for lim, word, exp in ((n + 50, 'a' * n + 'b', True), (n + 50, 'a' * 3 + 'b', True), (5, 'a' * 2 + 'b', True), (n + 50, 'a' * 5, False)):
            GambaTools.pda_epsilon_closure_max_iterations = lim
            inst = {'pda': pda.show(spec), 'word': 'a^{} b'.format(len(word) - 1), 'limit': lim, 'largest_closure': len(word) + 2}
            ok, got = core.lib_call(acc, 'pda_accepts_word', inst, pda_accepts_word, P, word, repro=rp)
            acc.transitions += 1
            acc.states += 1
            if ok:
                acc.evals += 1
                if got is not exp:
                    acc.viol('pda_accepts_word', 'rejects a word of the language although every epsilon closure fits the limit', inst, repro=rp, observed=got, expected=exp)
    finally:
        GambaTools.pda_epsilon_closure_max_iterations = old


def multichar_family():
    """Stack symbols of several characters whose concatenations coincide: [A,B] and [AB] must stay different stacks."""
    idx = 0
    for pop_sym in (0, 1, 2):
        for target in range(3):
            for f in range(3):
                for extra in (None, (2, 0, 1, 2, 3), (2, 0, 2, 2, 3)):
                    tr = {(0, 1, 3, 1, 0), (1, 1, 3, 2, 1), (0, 1, 3, 2, 2), (2, 0, pop_sym, target, 3)}
                    if extra:
                        tr.add(extra)
                    yield idx, ('pda', 3, 1, 3, tuple(sorted(tr)), 0, 1 << f)
                    idx += 1


def t_multichar(acc, L):
    import itertools
    for idx, spec in itertools.chain(multichar_family(), pda.multichar_pushpop_family()):
        try:
            pda.build(spec, ('A', 'B', 'AB', '$'), 's', '_')
        except Exception:
            acc.c['multichar_stack_symbols_rejected_by_the_constructor'] += 1      # a stricter constructor is not a violation
            continue
        check(acc, spec, L + (2 if spec[1] == 5 else 0), (5, 8), ('A', 'B', 'AB', '$'), '_')


def t_double_noop(acc, L, shard, nshard, stride=1, offset=0):
    for idx, spec in pda.double_noop_family():
        if idx % stride == offset % stride and (idx // stride) % nshard == shard:
            check(acc, spec, L, (3, 5, 8), ('x', 'y'), '_', exact=True)


def t_chain(acc, n, L):
    for idx, spec in chain_family(n):
        check(acc, spec, L, tuple(range(max(1, n - 1), n + 3)), ('x', 'y'), '_')



def plan(tier, seed):
    tasks = []
    P = 'mc.props.c09:t_space'

    def add(n, k, g, t, L, ns, stride=1, limits=LIMITS, stack=('x', 'y'), eps='_', tmin=0, morph=False):
        tasks.extend(('plain', P, {'n': n, 'k': k, 'g': g, 't': t, 'L': L, 'shard': s, 'nshard': ns, 'stride': stride, 'offset': seed, 'limits': list(limits), 'stack': list(stack), 'eps': eps, 'tmin': tmin, 'morph': morph}) for s in range(ns))

    tasks.append(('plain', 'mc.props.c09:t_deep', {}))
    tasks.append(('plain', 'mc.props.c09:t_multichar', {'L': 2}))
    tasks.extend(('plain', 'mc.props.c09:t_double_noop', {'L': 3, 'shard': s_, 'nshard': 16, 'stride': 1, 'offset': 0}) for s_ in range(16))
    add(1, 1, 1, 4, 4, 1)
    add(1, 1, 1, 4, 3, 1, morph=True)
    add(2, 1, 1, 2, 3, 4, morph=True)
    for n_ in (2, 3, 4, 5):
        tasks.append(('plain', 'mc.props.c09:t_chain', {'n': n_, 'L': 1}))
    add(1, 1, 1, 3, 3, 1, eps='')
    add(1, 1, 1, 3, 3, 1, eps='ε', stack=('$', '∅'))
    add(2, 1, 1, 2, 3, 2, eps='')
    if tier == 'quick':
        add(2, 1, 1, 3, 3, 32)
        add(2, 2, 1, 2, 3, 16)
        add(2, 1, 2, 2, 3, 16)
        add(2, 1, 1, 3, 3, 8, stride=64, limits=(13, 1000), tmin=2)
        bounds = 'PDA(1,1,1,<=4); PDA(2,1,1,<=3) (43 912), PDA(2,2,1,<=2), PDA(2,1,2,<=2) x words <= 3 x limits 1,2,3,5,8; stride 1/64 with limits 13, 1000; epsilon spelled _, \'\', ε'
    else:
        add(2, 1, 1, 3, 4, 64)
        add(2, 2, 1, 2, 3, 32)
        add(2, 1, 2, 2, 3, 32)
        add(2, 2, 1, 3, 3, 64, stride=8, tmin=3)
        add(2, 1, 1, 4, 3, 64, stride=8, tmin=4)
        add(3, 1, 1, 3, 3, 64, stride=16, tmin=3)
        add(2, 1, 1, 3, 3, 32, stride=16, limits=(13, 1000), tmin=2)
        bounds = 'PDA(2,1,1,<=3) x words <= 4; PDA(2,2,1,<=2), PDA(2,1,2,<=2) x words <= 3; strides 1/8 of PDA(2,2,1,3), PDA(2,1,1,4), 1/16 of PDA(3,1,1,3); limits 1,2,3,5,8; stride 1/16 with limits 13, 1000'
    return {'tasks': tasks, 'bounds': {'spaces': bounds}, 'exhaustive': True,
            'rule': 'every labelled PDA in the bounds x every word x every listed value of pda_epsilon_closure_max_iterations; soundness vs saturation oracle for every limit; completeness demanded iff explicit configuration search shows every closure on the way has at most `limit` configurations; non-trivial = PDA with a word of the language inside the premise',
            'assumptions': ['closure premise evaluated on the exact configuration sets (oracle), capped at max(limit)+1', 'small spaces are presented a second time through one live PDA object rewritten in place (detects per-object caches)', 'epsilon-chain family with self-loops (n = 2..5) at limits n-1..n+2: closures with few configurations but many applicable epsilon steps', 'one deep instance a^1005 b with limit 1055 (closure of 1007 configurations: above the default limit of 1000, below the configured one)', 'a family with the stack symbols A, B, AB (constructor-built PDAs; the text format only has one-character symbols)', 'wave 6: double no-op family (5 460 automata: two different moves with the same effect plus four moves from a menu of sixteen), each word also at the limit that equals its largest closure exactly']}
