"""C20 - DFA isomorphism test: terminates and decides isomorphism of the reachable parts, for every pair
and every exploration order."""
from mc import core, spaces
from mc.oracles import fa
from mc.props import common

ROUTINES = ('dfa_isomorphic1', 'dfa_isomorphic')
BUDGET = 20000


def routine(name):
    import gambatools.dfa_algorithms as m
    return getattr(m, name)


def tup(x):
    return tuple(tup(y) for y in x) if isinstance(x, list) else x


def check_pair(acc, s1, s2, depth, sch1='s', sch2='r', routines=ROUTINES, only=None, logging=False, morph=False):
    A = common.ref_of_dfa_spec(s1, sch1)
    B = common.ref_of_dfa_spec(s2, sch2)
    exp = fa.iso(A, B)
    eq = fa.equivalent(A, B) is None
    unr = (fa.reachable(A) != set(A.Q)) or (fa.reachable(B) != set(B.Q))
    acc.c['pairs_isomorphic' if exp else ('pairs_equivalent_not_isomorphic' if eq else 'pairs_inequivalent')] += 1
    acc.c['pairs_with_unreachable_states'] += unr
    if eq and not exp or (exp and unr):
        acc.nontrivial += 1
        acc.sample({'D1': spaces.dfa_parts(s1, sch1), 'D2': spaces.dfa_parts(s2, sch2), 'isomorphic_reachable_parts': exp, 'equivalent': eq})
    for name in routines:
        f = routine(name)

        def execute(boost, native=False):
            from gambatools.global_settings import GambaTools
            rp = {'fn': 'mc.props.c20:one', 'mode': 'instr', 'params': {'s1': s1, 's2': s2, 'sch1': sch1, 'sch2': sch2, 'routine': name, 'boost': list(boost), 'native': native, 'logging': logging}}
            inst = {'D1': s1, 'D2': s2, 'names': [sch1, sch2], 'routine': name, 'logging': logging, 'schedule': 'native' if native else {'boost': list(boost)}}
            if morph:
                rp = {'fn': 'mc.props.c20:t_morph', 'mode': 'instr', 'params': dict(acc.data.get('ctx', {}), upto=[s1, s2])}
                inst['presented_as'] = 'two live DFA objects rewritten in place after earlier comparisons'
                D1 = morph2(0, s1, sch1)
                D2 = morph2(1, s2, sch2)
            else:
                D1 = spaces.build_dfa(s1, sch1)
                D2 = spaces.build_dfa(s2, sch2)
            GambaTools.enable_logging = logging
            try:
                st, got = common.sched_call(acc, name, inst, f, D1, D2, boost=boost, native=native, budget=BUDGET, rp=rp)
            finally:
                GambaTools.enable_logging = False
            if st == 'ok':
                acc.evals += 1
                acc.validated += 1
                if got is not exp:
                    acc.viol(name, 'answer differs from existence of an isomorphism of the reachable parts', inst, repro=rp, observed=got, expected=exp,
                             pair_class='isomorphic' if exp else ('equivalent, not isomorphic' if eq else 'inequivalent'), unreachable_states=unr)

        if only is not None:
            execute(tup(only[0]), only[1])
            continue
        execute((), native=True)
        acc.transitions += 1
        common.explore(acc, execute, depth)


_LIVE2 = {}


def morph2(slot, spec, scheme):
    """Two live DFA objects (slot 0 / 1) rewritten in place."""
    from gambatools.dfa import DFA
    Q, Sg, delta, q0, F = spaces.dfa_parts(spec, scheme)
    D = _LIVE2.get(slot)
    if D is None:
        D = _LIVE2[slot] = DFA(set(Q), set(Sg), dict(delta), q0, set(F))
        return D
    D.Q.clear(); D.Q.update(Q)
    D.Sigma.clear(); D.Sigma.update(Sg)
    D.delta.clear(); D.delta.update(delta)
    D.q0 = q0
    D.F.clear(); D.F.update(F)
    return D


def t_morph(acc, n1, n2, k, shard, nshard, upto=None):
    def tl(x):
        return tuple(tl(y) for y in x) if isinstance(x, list) else x
    upto = tl(upto) if upto is not None else None
    _LIVE2.clear()
    acc.data['ctx'] = {'n1': n1, 'n2': n2, 'k': k, 'shard': shard, 'nshard': nshard}
    size2 = spaces.dfa_size(n2, k)
    total = spaces.dfa_size(n1, k) * size2
    # a stride that is coprime to both sizes walks through very different pairs back to back
    step = 37
    idx = shard
    for _ in range(total // nshard):
        i = (idx * step) % total
        s1, s2 = spaces.dfa_spec(n1, k, i // size2), spaces.dfa_spec(n2, k, i % size2)
        check_pair(acc, s1, s2, 0, 's', 'r', morph=True)
        if upto is not None and (s1, s2) == upto:
            break
        idx += nshard
    acc.data.clear()


def one(acc, s1, s2, sch1, sch2, routine, boost=(), native=False, logging=False):
    check_pair(acc, s1, s2, 0, sch1, sch2, (routine,), only=(boost, native), logging=logging)


def t_pairs(acc, n1, n2, k, depth, shard, nshard, stride=1, offset=0, sch2='r', logging=False):
    size2 = spaces.dfa_size(n2, k)
    total = spaces.dfa_size(n1, k) * size2
    cnt = 0
    for idx in range(offset % stride, total, stride):
        cnt += 1
        if cnt % nshard != shard:
            continue
        check_pair(acc, spaces.dfa_spec(n1, k, idx // size2), spaces.dfa_spec(n2, k, idx % size2), depth, 's', sch2, logging=logging)


def t_deep(acc, n):
    """Thin deep family: the counter modulo n over {a, b} (a: +1, b: stay) against a renamed copy of itself and
    against siblings with another accepting state / another initial state - one simple path through all n states."""
    from gambatools.dfa import DFA

    def counter(prefix, q0, f):
        Q = ['%s%d' % (prefix, i) for i in range(n)]
        d = {}
        for i in range(n):
            d[Q[i], 'a'] = Q[(i + 1) % n]
            d[Q[i], 'b'] = Q[i]
        return DFA(set(Q), {'a', 'b'}, d, Q[q0], {Q[f]})

    rp = {'fn': 'mc.props.c20:t_deep', 'mode': 'plain', 'params': {'n': n}}
    cases = [((0, n - 1), (0, n - 1), True), ((0, n - 1), (0, n - 2), False), ((0, n - 1), (1, 0), True), ((0, 0), (0, 0), True), ((0, 1), (1, 0), False)]
    for name in ROUTINES:
        for (a, b, exp) in cases:
            inst = {'D1': 'counter mod %d, q0=%d, F={%d}' % ((n,) + a), 'D2': 'renamed counter mod %d, q0=%d, F={%d}' % ((n,) + b), 'routine': name}
            ok, got = core.lib_call(acc, name, inst, routine(name), counter('q', *a), counter('r', *b), repro=rp)
            acc.states += 1
            acc.transitions += 1
            if ok:
                acc.evals += 1
                acc.validated += 1
                acc.nontrivial += 1
                if got is not exp:
                    acc.viol(name, 'answer differs from existence of an isomorphism of the reachable parts', inst, repro=rp, observed=got, expected=exp)


def t_heap(acc, n, k, shard, nshard):
    """Thin family (wave 6): the n-state heap DFA against every DFA that differs from it in one row (spaces.heap_pairs);
    CPython order and the canonical order, no deviations."""
    for idx, (s1, s2) in spaces.heap_pairs(n, k):
        if idx % nshard == shard:
            check_pair(acc, s1, s2, 0, 's', 'r')
            if idx % 7 == 0:
                check_pair(acc, s2, s1, 0, 's', 'r')


def plan(tier, seed):
    tasks = [('plain', 'mc.props.c20:t_deep', {'n': 1500}), ('plain', 'mc.props.c20:t_deep', {'n': 17})]
    tasks += [('instr', 'mc.props.c20:t_heap', {'n': 12, 'k': 2, 'shard': s_, 'nshard': 16}) for s_ in range(16)]
    tasks += [('instr', 'mc.props.c20:t_heap', {'n': 11, 'k': 3, 'shard': s_, 'nshard': 16}) for s_ in range(16) if tier != 'quick' or s_ % 4 == 0]

    def pairs(n1, n2, k, depth, nshard, stride=1, sch2='r', logging=False):
        for s in range(nshard):
            tasks.append(('instr', 'mc.props.c20:t_pairs', {'n1': n1, 'n2': n2, 'k': k, 'depth': depth, 'shard': s, 'nshard': nshard, 'stride': stride, 'offset': seed, 'sch2': sch2, 'logging': logging}))

    d = 1 if tier == 'quick' else 2
    for k in (0, 1, 2):
        for n1 in (1, 2):
            for n2 in (1, 2):
                if (n1, n2, k) == (2, 2, 2):
                    pairs(2, 2, 2, d, 32)
                else:
                    pairs(n1, n2, k, 2, 1)
    pairs(2, 2, 1, 2, 1, sch2='s')
    pairs(2, 2, 1, 1, 1, logging=True)
    pairs(2, 2, 2, 0, 8, stride=4, logging=True)
    pairs(3, 2, 1, 0, 2, logging=True)
    for s_ in range(2):
        tasks.append(('instr', 'mc.props.c20:t_morph', {'n1': 2, 'n2': 2, 'k': 1, 'shard': s_, 'nshard': 2}))
    for s_ in range(8):
        tasks.append(('instr', 'mc.props.c20:t_morph', {'n1': 2, 'n2': 2, 'k': 2, 'shard': s_, 'nshard': 8}))
        tasks.append(('instr', 'mc.props.c20:t_morph', {'n1': 3, 'n2': 2, 'k': 1, 'shard': s_, 'nshard': 8}))
    pairs(1, 1, 1, 2, 1, sch2='s')
    pairs(1, 2, 1, 2, 1, sch2='s')
    if tier == 'quick':
        for (a, b) in ((3, 1), (1, 3), (3, 2), (2, 3)):
            pairs(a, b, 1, 1, 2)
        pairs(3, 3, 1, 1, 16, stride=16)
        pairs(3, 2, 2, 0, 8, stride=64)
        pairs(2, 3, 2, 0, 8, stride=64)
        pairs(3, 3, 2, 0, 16, stride=16384)
        bounds = 'ordered pairs DFA(n<=2,k<=2)^2 all (d<=2; (2,2,k=2) d<=1); DFA(3,1)x DFA(n<=2,1) both orders d<=1; DFA(3,1)^2 stride 1/16 d<=1; DFA(3,2)xDFA(2,2) stride 1/64, DFA(3,2)^2 stride 1/16384 (d=0)'
    else:
        for (a, b) in ((3, 1), (1, 3), (3, 2), (2, 3)):
            pairs(a, b, 1, 2, 4)
        pairs(3, 3, 1, 1, 64)
        pairs(3, 2, 2, 1, 32, stride=8)
        pairs(2, 3, 2, 1, 32, stride=8)
        pairs(3, 3, 2, 1, 64, stride=1024)
        bounds = 'ordered pairs DFA(n<=2,k<=2)^2 all d<=2; DFA(n<=3,1)^2 all (465 124) d<=1 (d<=2 when one side has <= 2 states); DFA(3,2)xDFA(2,2) stride 1/8 d<=1; DFA(3,2)^2 stride 1/1024 d<=1'
    base = list(tasks)
    sel = lambda name, p: name.endswith('t_pairs') and (p['n1'], p['n2'], p['k']) in ((2, 2, 1), (1, 2, 2), (2, 1, 2)) and not p['logging'] and p['sch2'] == 'r'
    for kn in ({'dorder': 'aq'}, {'dorder': 'rev'}):
        tasks += common.knob_copies(base, sel, kn)
    for sch in ('f', 'u', 'g', 't'):
        pairs(2, 2, 1, 1, 1, sch2=sch)
    return {'tasks': tasks, 'bounds': {'spaces': bounds, 'step_budget': BUDGET}, 'exhaustive': True,
            'rule': 'ordered pairs of labelled DFAs over the same alphabet (second operand renamed r0.. or with identical names) x both routines x one execution under CPython order + every execution with <= d set-order deviations, loop-iteration budget as termination oracle; non-trivial = equivalent-but-not-isomorphic pairs and isomorphic pairs with unreachable states',
            'assumptions': ['termination = result within {} loop iterations (largest count seen on a terminating run is in maxima)'.format(BUDGET), 'set order = global order per execution (DESIGN 3.4)', 'state names are distinct str objects with equal content (as parsers produce them)', 'small pair spaces also with GambaTools.enable_logging = True and through two live DFA objects rewritten in place', 'wave 5: the counter modulo 1500 (one simple path through all states, longer than the recursion limit) against renamed copies and non-isomorphic siblings; expected answers by construction', 'wave 6: the 12-state two-letter (11-state three-letter) heap DFA against all one-row variants: state numbers with two digits']}
