"""C15 - simulation traces and derivations are genuine witnesses and are produced (termination by step budget),
for every set-iteration order."""
import itertools

from mc import core, spaces
from mc.oracles import fa, pda, cfg
from mc.props import common

PDA_LIMIT = 12


def tup(x):
    return tuple(tup(y) for y in x) if isinstance(x, list) else x


# ---------------------------------------------------------------- validators (oracle code)
def valid_fa_run(A, w, run, eps_moves=True):
    if not isinstance(run, list) or not run:
        return 'not a non-empty list'
    for row in run:
        if not isinstance(row, (tuple, list)) or len(row) != 2:
            return 'row {!r} is not a (state, unread) pair'.format(row)
    q, rem = run[0]
    if q != A.q0 or rem != w:
        return 'does not start in (q0, whole word): {!r}'.format(run[0])
    for (q, rem), (q1, rem1) in zip(run, run[1:]):
        if rem1 == rem:
            if not (eps_moves and q1 in A.eps.get(q, ())):
                return 'step {} -> {} without input is not an epsilon transition'.format(q, q1)
        elif rem and rem1 == rem[1:]:
            if q1 not in A.delta.get((q, rem[0]), ()):
                return 'step {} -{}-> {} is not a transition'.format(q, rem[0], q1)
        else:
            return 'unread input does not shrink from the front: {!r} -> {!r}'.format(rem, rem1)
    q, rem = run[-1]
    if rem != '':
        return 'ends with unread input {!r}'.format(rem)
    if q not in A.F:
        return 'ends in non-accepting state {}'.format(q)
    return None


def valid_pda_run(P, w, run):
    if not isinstance(run, list) or not run:
        return 'not a non-empty list'
    for row in run:
        if not isinstance(row, (tuple, list)) or len(row) != 3 or not isinstance(row[2], (list, tuple)):
            return 'row {!r} is not (state, unread, stack)'.format(row)
    q, rem, st = run[0]
    if q != P.q0 or rem != w or list(st) != []:
        return 'does not start in (q0, whole word, empty stack): {!r}'.format(run[0])
    for (q, rem, st), (q1, rem1, st1) in zip(run, run[1:]):
        if rem1 == rem:
            a = pda.EPS
        elif rem and rem1 == rem[1:]:
            a = rem[0]
        else:
            return 'unread input does not shrink from the front: {!r} -> {!r}'.format(rem, rem1)
        ok = False
        for (p, x, u, t, v) in P.trans:
            if p != q or x != a or t != q1:
                continue
            if u != pda.EPS and (not st or st[-1] != u):
                continue
            s2 = list(st) if u == pda.EPS else list(st[:-1])
            if v != pda.EPS:
                s2 = s2 + [v]
            if s2 == list(st1):
                ok = True
                break
        if not ok:
            return 'step ({},{}) -{}-> ({},{}) is not a transition'.format(q, ''.join(st), a or 'ε', q1, ''.join(st1))
    q, rem, st = run[-1]
    if rem != '':
        return 'ends with unread input {!r}'.format(rem)
    if q not in P.F:
        return 'ends in non-accepting state {}'.format(q)
    return None


def valid_derivation(g, w, der, dtype):
    _, V, Sg, rules, S = g
    Vs = set(V)
    if not isinstance(der, list) or not der:
        return 'not a non-empty list'
    der = [list(map(str, e)) for e in der]
    if der[0] != [S]:
        return 'does not start with the start variable: {}'.format(der[0])
    for x, y in zip(der, der[1:]):
        cands = [i for i, s in enumerate(x) if s in Vs]
        if not cands:
            return 'step from a terminal string {}'.format(''.join(x))
        if dtype == 'leftmost':
            cands = cands[:1]
        elif dtype == 'rightmost':
            cands = cands[-1:]
        if not any(x[:i] + list(rhs) + x[i + 1:] == y for i in cands for (l, rhs) in rules if l == x[i]):
            return 'step {} => {} does not rewrite the {} variable by a rule'.format(''.join(x), ''.join(y), dtype if dtype != 'any' else 'some')
    if der[-1] != list(w):
        return 'does not end with the word: {}'.format(''.join(der[-1]))
    return None


# ---------------------------------------------------------------- checks
def explore_call(acc, fname, f, args_factory, judge, inst0, rp0, depth, budget, budget_is_violation=True, only=None):
    """Run f(*args_factory()) under CPython order and under every <= depth set-order deviations."""
    def execute(boost, native=False):
        rp = dict(rp0, params=dict(rp0['params'], boost=list(boost), native=native))
        inst = dict(inst0, schedule='native' if native else {'boost': list(boost)})
        st, v = common.sched_call(acc, fname, inst, f, *args_factory(), boost=boost, native=native, budget=budget, rp=rp, budget_is_violation=budget_is_violation)
        if st == 'ok':
            acc.evals += 1
            acc.validated += 1
            judge(v, inst, rp)
        elif st == 'budget':
            acc.c['budget_exhausted_' + ('reported' if budget_is_violation else 'outside_premise')] += 1
    if only is not None:
        execute(tup(only[0]), only[1])
        return
    execute((), native=True)
    acc.transitions += 1
    common.explore(acc, execute, depth)


def check_dfa(acc, spec, L, depth, scheme='s', only=None):
    from gambatools.dfa_algorithms import dfa_simulate_word
    A = common.ref_of_dfa_spec(spec, scheme)
    D = spaces.build_dfa(spec, scheme)
    for w in spaces.words(A.Sigma, L):
        if only is not None and w != only[2]:
            continue
        if not fa.accepts(A, w):
            continue
        acc.c['accepted_words'] += 1
        rp0 = {'fn': 'mc.props.c15:one', 'mode': 'instr', 'params': {'kind': 'dfa', 'spec': spec, 'word': w, 'opt': scheme}}

        def judge(run, inst, rp):
            msg = valid_fa_run(A, w, run, eps_moves=False)
            if msg:
                acc.viol('dfa_simulate_word', 'returned run is not an accepting run of the automaton on the word', inst, repro=rp, observed={'reason': msg, 'run': run})
        explore_call(acc, 'dfa_simulate_word', dfa_simulate_word, lambda: (D, w), judge, {'dfa': spec, 'scheme': scheme, 'word': w}, rp0, 0, 5000, only=only)


def check_nfa(acc, spec, L, depth, scheme='s', eps='', only=None):
    from gambatools.nfa_algorithms import nfa_simulate_word
    A = common.ref_of_nfa_spec(spec, scheme, eps)
    N = spaces.build_nfa(spec, scheme, eps, 'sparse')
    acc.c['automata'] += 1
    for w in spaces.words(A.Sigma, L):
        if only is not None and w != only[2]:
            continue
        exp = fa.accepts(A, w)
        acc.c['accepted_words' if exp else 'rejected_words'] += 1
        rp0 = {'fn': 'mc.props.c15:one', 'mode': 'instr', 'params': {'kind': 'nfa', 'spec': spec, 'word': w, 'opt': [scheme, eps]}}
        inst0 = {'nfa': {'Q': A.Q, 'transitions': sorted('{} -{}-> {}'.format(p, a or 'ε', q) for (p, a, q) in spaces.nfa_parts(spec, scheme, eps)[2]), 'q0': A.q0, 'F': sorted(A.F)}, 'word': w}

        def judge(run, inst, rp):
            if not exp:
                if run is not None:
                    acc.viol('nfa_simulate_word', 'returns a run for a rejected word', inst, repro=rp, observed=run)
                return
            if run is None:
                acc.viol('nfa_simulate_word', 'returns nothing for an accepted word', inst, repro=rp)
                return
            msg = valid_fa_run(A, w, run)
            if msg:
                acc.viol('nfa_simulate_word', 'returned run is not an accepting run of the automaton on the word', inst, repro=rp, observed={'reason': msg, 'run': run})
        explore_call(acc, 'nfa_simulate_word', nfa_simulate_word, lambda: (N, w), judge, inst0, rp0, depth if exp else 0, 20000, only=only)
    if A.eps and any(fa.accepts(A, w) for w in ('',) + tuple(A.Sigma)):
        acc.nontrivial += 1
        if len(spec[3]) >= 3:
            acc.sample(inst0['nfa'])


def check_pda(acc, spec, L, depth, stack=('x', 'y'), only=None):
    from gambatools.pda_algorithms import pda_simulate_word
    from gambatools.global_settings import GambaTools
    R = pda.ref(spec, stack)
    try:
        P = pda.build(spec, stack)
    except Exception:
        acc.c['pda_rejected_by_the_constructor'] += 1     # e.g. multi-character stack symbols under a stricter constructor
        return
    old = GambaTools.pda_epsilon_closure_max_iterations
    GambaTools.pda_epsilon_closure_max_iterations = PDA_LIMIT
    try:
        for w in spaces.words(R.Sigma, L):
            if only is not None and w != only[2]:
                continue
            exp = pda.accepts(R, w)
            verdict, complete, mx, _ = pda.run_sets(R, w, PDA_LIMIT + 1)
            premise = complete and mx <= PDA_LIMIT
            acc.c['pda_words_inside_premise' if premise else 'pda_words_outside_premise'] += 1
            rp0 = {'fn': 'mc.props.c15:one', 'mode': 'instr', 'params': {'kind': 'pda', 'spec': spec, 'word': w, 'opt': list(stack)}}
            inst0 = {'pda': pda.show(spec, stack), 'word': w, 'limit': PDA_LIMIT}

            def judge(run, inst, rp):
                if run is None:
                    if exp and premise:
                        acc.viol('pda_simulate_word', 'returns nothing for an accepted word (every closure fits the limit)', inst, repro=rp)
                    return
                if not exp:
                    acc.viol('pda_simulate_word', 'returns a run for a rejected word', inst, repro=rp, observed=run)
                    return
                msg = valid_pda_run(R, w, run)
                if msg:
                    acc.viol('pda_simulate_word', 'returned run is not an accepting computation of the automaton on the word', inst, repro=rp, observed={'reason': msg, 'run': run})
            budget = 50 * PDA_LIMIT * (len(R.trans) + 1) * (len(w) + 2)
            explore_call(acc, 'pda_simulate_word', pda_simulate_word, lambda: (P, w), judge, inst0, rp0, depth if (exp and premise) else 0, budget,
                         budget_is_violation=premise, only=only)
            if exp and premise and len(spec[4]) >= 2:
                acc.nontrivial += 1
                if len(spec[4]) >= 3 and w:
                    acc.sample(inst0)
    finally:
        GambaTools.pda_epsilon_closure_max_iterations = old


def t_cyc(acc, maxlen, front, limit, upto=None):
    """Thin family (wave 5): coprime push / pop epsilon cycles (mc.oracles.pda.cyc_family).  Every closure is infinite, so
    the run is demanded under the property's own reading: when the library's acceptance test, at the same limit, accepts
    a word of the language, the simulation must return an accepting run.  CPython order only."""
    from gambatools.pda_algorithms import pda_simulate_word, pda_accepts_word
    from gambatools.global_settings import GambaTools
    old = GambaTools.pda_epsilon_closure_max_iterations
    GambaTools.pda_epsilon_closure_max_iterations = limit
    try:
        for idx, spec in pda.cyc_family(maxlen, front):
            R = pda.ref(spec)
            P = pda.build(spec)
            acc.states += 1
            for w in spaces.words(R.Sigma, 1):
                exp = pda.accepts(R, w)
                rp = {'fn': 'mc.props.c15:t_cyc', 'mode': 'plain', 'params': {'maxlen': maxlen, 'front': front, 'limit': limit, 'upto': idx}}
                inst = {'pda': pda.show(spec), 'word': w, 'limit': limit}
                ok, lib_acc = core.lib_call(acc, 'pda_accepts_word', inst, pda_accepts_word, P, w, repro=rp)
                ok2, run = core.lib_call(acc, 'pda_simulate_word', inst, pda_simulate_word, P, w, repro=rp)
                acc.transitions += 2
                if not (ok and ok2):
                    continue
                acc.evals += 1
                acc.validated += 1
                if run is None:
                    if exp and lib_acc is True:
                        acc.viol('pda_simulate_word', 'returns nothing for a word of the language that the acceptance test accepts at the same limit', inst, repro=rp)
                    continue
                if not exp:
                    acc.viol('pda_simulate_word', 'returns a run for a rejected word', inst, repro=rp, observed=run)
                    continue
                acc.nontrivial += 1
                msg = valid_pda_run(R, w, run)
                if msg:
                    acc.viol('pda_simulate_word', 'returned run is not an accepting computation of the automaton on the word', inst, repro=rp, observed={'reason': msg, 'run': run})
                else:
                    acc.mx('max_stack_height_in_a_returned_run', max(len(row[2]) for row in run))
            if upto is not None and idx == upto:
                break
    finally:
        GambaTools.pda_epsilon_closure_max_iterations = old


def t_long_derivation(acc, n, dtype):
    """Scale instance (wave 6): the CNF grammar S -> AT | AB, T -> AT | AB, A -> a, B -> b and the word a^(n-1) b: a parse
    tree with about 3n nodes, deeper than the interpreter's recursion limit for n >= 340.  CPython order (the CYK table
    alone takes seconds)."""
    from gambatools.cfg_algorithms import cfg_derive_word
    g = ('cfg', ('A', 'B', 'S', 'T'), ('a', 'b'), (('S', ('A', 'T')), ('S', ('A', 'B')), ('T', ('A', 'T')), ('T', ('A', 'B')), ('A', ('a',)), ('B', ('b',))), 'S')
    G = cfg.to_lib(g)
    w = 'a' * (n - 1) + 'b'
    rp = {'fn': 'mc.props.c15:t_long_derivation', 'mode': 'plain', 'params': {'n': n, 'dtype': dtype}}
    inst = {'grammar': cfg.show(g), 'word': 'a^%d b' % (n - 1), 'derivation_type': dtype}
    acc.states += 1
    ok, der = core.lib_call(acc, 'cfg_derive_word', inst, cfg_derive_word, G, w, dtype, repro=rp)
    acc.transitions += 1
    if ok:
        acc.evals += 1
        acc.validated += 1
        acc.nontrivial += 1
        msg = valid_derivation(g, w, der, dtype)
        if msg:
            acc.viol('cfg_derive_word', 'returned derivation is not a {} derivation of the word'.format(dtype), inst, repro=rp, observed={'reason': msg})
        else:
            acc.mx('max_derivation_steps', len(der) - 1)


def check_cfg(acc, g, L, only=None, siblings=True):
    from gambatools.cfg_algorithms import cfg_derive_word
    if siblings and only is None:
        # the same rule list with another start variable (legal CNF when that variable is on no right-hand side),
        # derived right after the original in the same process
        for X in ('A', 'B'):
            if any(l == X for l, _ in g[3]) and not any(X in rhs for _, rhs in g[3]) and not any(l == X and not rhs for l, rhs in g[3]):
                g2 = ('cfg', g[1], g[2], tuple((l, r) for l, r in g[3] if not (l == 'S' and not r)), X)
                if cfg.is_cnf(g2) is None:
                    check_cfg(acc, g, L, siblings=False)
                    check_cfg(acc, g2, L, siblings=False)
                    return
    lang, _ = cfg.language(g, L)
    G = cfg.to_lib(g)
    acc.c['cnf_grammars'] += 1
    for w in sorted(lang, key=lambda x: (len(x), x)):
        if not w or (only is not None and w != only[2]):
            continue
        for dtype in ('leftmost', 'rightmost', 'any'):
            if only is not None and dtype != only[3]:
                continue
            rp0 = {'fn': 'mc.props.c15:one', 'mode': 'instr', 'params': {'kind': 'cfg', 'spec': g, 'word': w, 'opt': dtype}}
            inst0 = {'grammar': cfg.show(g), 'word': w, 'derivation_type': dtype}

            def judge(der, inst, rp):
                msg = valid_derivation(g, w, der, dtype)
                if msg:
                    acc.viol('cfg_derive_word', 'returned derivation is not a {} derivation of the word'.format(dtype), inst, repro=rp,
                             observed={'reason': msg, 'derivation': [''.join(map(str, e)) for e in der] if isinstance(der, list) else der})
            explore_call(acc, 'cfg_derive_word', cfg_derive_word, lambda: (G, w, dtype), judge, inst0, rp0, 1, 20000, only=only)
        if len(w) >= 3:
            acc.nontrivial += 1
            if len(g[3]) >= 4:
                acc.sample({'grammar': cfg.show(g), 'word': w})


def one(acc, kind, spec, word, opt, boost=(), native=False):
    spec = tup(spec)
    only = (boost, native, word, opt)
    if kind == 'dfa':
        check_dfa(acc, spec, len(word), 0, opt, only=only)
    elif kind == 'nfa':
        check_nfa(acc, spec, len(word), 0, opt[0], opt[1], only=only)
    elif kind == 'pda':
        check_pda(acc, spec, len(word), 0, tuple(opt), only=only)
    else:
        check_cfg(acc, spec, len(word), only=only)


def eps_heavy(n, maxeps, idx0=0):
    """NFA(n,1): <= maxeps epsilon edges + exactly one letter edge, q0 = s0, |F| = 1 (the back-pointer family)."""
    E = [(p, 1, q) for p in range(n) for q in range(n)]
    idx = 0
    for m in range(0, maxeps + 1):
        for es in itertools.combinations(E, m):
            for lp in range(n):
                for lq in range(n):
                    for f in range(n):
                        yield idx, ('nfa', n, 1, tuple(sorted(es + ((lp, 0, lq),))), 0, 1 << f)
                        idx += 1


def push_family():
    """PDAs (3 states, one letter, two stack symbols): one epsilon no-op move, two push moves on the letter that enter
    the same state with different symbols, one pop move on the letter; q0 = s0, |F| = 1.  The shape in which a
    backward reconstruction can pick a predecessor that could not have produced the configuration."""
    n, k, g = 3, 1, 2
    E, X = k, g
    idx = 0
    for p in range(n):
        for p2 in range(n):
            noop = (p, E, X, p2, X)
            for a1 in range(n):
                for a2 in range(n):
                    for q in range(n):
                        for (v1, v2) in ((0, 1), (1, 0)):
                            pu1 = (a1, 0, X, q, v1)
                            pu2 = (a2, 0, X, q, v2)
                            for r in range(n):
                                for u in range(g):
                                    for r2 in range(n):
                                        pop = (r, 0, u, r2, X)
                                        for f in range(n):
                                            yield idx, ('pda', n, k, g, tuple(sorted({noop, pu1, pu2, pop})), 0, 1 << f)
                                            idx += 1


def t_space(acc, kind, space, L, depth, shard, nshard, stride=1, offset=0, opt=None):
    space = tup(space)
    if kind == 'dfa':
        gen = spaces.dfas(*space)
    elif kind == 'nfa':
        gen = eps_heavy(*space[1:]) if space[0] == 'epsheavy' else (spaces.nfa_chains(space[1]) if space[0] == 'chain' else (spaces.nfas(4, 1, space[1], q0s=[0], fbits=[1, 2, 4, 8], tmin=space[1]) if space[0] == 'nfa4' else spaces.nfas(*space)))
    elif kind == 'pda':
        if space[0] == 'multichar':
            from mc.props.c09 import multichar_family
            gen = multichar_family()
        else:
            gen = push_family() if space[0] == 'pushfamily' else pda.pdas(*space)
    else:
        gen = cfg.cnf3(*space)
    for idx, spec in gen:
        if idx % stride == offset % stride and (idx // stride) % nshard == shard:
            acc.states += 0
            if kind == 'dfa':
                check_dfa(acc, spec, L, depth, opt or 's')
            elif kind == 'nfa':
                check_nfa(acc, spec, L, depth, *(opt or ['s', '']))
            elif kind == 'pda':
                check_pda(acc, spec, L, depth, tuple(opt or ['x', 'y']))
            else:
                check_cfg(acc, spec, L)


def plan(tier, seed):
    tasks = []
    q = tier == 'quick'
    d = 1 if q else 2

    def add(kind, space, L, depth, nshard, stride=1, opt=None):
        tasks.extend(('instr', 'mc.props.c15:t_space', {'kind': kind, 'space': space, 'L': L, 'depth': depth, 'shard': s, 'nshard': nshard, 'stride': stride, 'offset': seed, 'opt': opt}) for s in range(nshard))

    for (n, k) in ((1, 1), (1, 2), (2, 1), (2, 2), (3, 1)):
        add('dfa', [n, k], 4, 0, 1)
    add('dfa', [3, 2], 3, 0, 8, 1 if not q else 4)
    add('nfa', [1, 1, None], 3, 2, 1)
    add('nfa', [2, 1, None], 3, d, 8)
    add('nfa', [2, 1, None], 2, 1, 4, opt=['z', 'ε'])
    add('nfa', [2, 2, 4 if q else None], 2, d, 16)
    add('nfa', [3, 1, 4], 2, d, 32, 4 if q else 1)
    add('nfa', ['chain', 4], 2, d, 2)
    add('nfa', ['chain', 5], 2, 1, 4)
    add('nfa', ['epsheavy', 4, 4], 1, d, 32, 16 if q else 2)
    add('nfa', ['epsheavy', 4, 4], 1, 1, 32, 16 if q else 2, opt=['z', 'ε'])
    add('nfa', ['epsheavy', 3, 5], 1, d, 16, 4 if q else 1)
    add('nfa', ['nfa4', 4], 1, 1, 32, 16 if q else 2)
    add('pda', [1, 1, 1, 3], 3, d, 1)
    add('pda', [2, 1, 1, 2], 3, d, 8)
    add('pda', [2, 1, 1, 3], 3, 1, 32, 8 if q else 1)
    add('pda', [2, 2, 1, 2], 2, 1, 16, 4 if q else 1)
    add('pda', ['pushfamily'], 2, 1, 32, 2 if q else 1)
    add('pda', ['multichar'], 2, 1, 1, 1, opt=['A', 'B', 'AB'])
    add('pda', [2, 1, 2, 2], 2, 1, 8, 2 if q else 1)
    add('cfg', [4 if q else 5], 4, 1, 32)
    tasks.insert(0, ('plain', 'mc.props.c15:t_long_derivation', {'n': 400, 'dtype': 'leftmost'}))
    tasks.insert(1, ('plain', 'mc.props.c15:t_long_derivation', {'n': 400, 'dtype': 'rightmost'}))
    for front in (False, True):
        tasks.append(('plain', 'mc.props.c15:t_cyc', {'maxlen': 5, 'front': front, 'limit': 1000}))
    add('pda', [2, 1, 1, 2], 2, 0, 4, opt=['γ', 'Ω'])
    base = list(tasks)
    sel = lambda name, p: name.endswith('t_space') and ((p['kind'] == 'pda' and p['space'] in ([1, 1, 1, 3], [2, 1, 1, 2], ['multichar'])) or (p['kind'] == 'nfa' and p['space'] in ([2, 1, None], ['chain', 4]) and not p['opt']) or (p['kind'] == 'dfa' and p['space'] == [2, 2]))
    for kn in ({'dorder': 'aq'}, {'dorder': 'rev'}):
        tasks += common.knob_copies(base, sel, kn)
    return {'tasks': tasks,
            'bounds': {'spaces': 'DFA(n<=2,k<=2), DFA(3,1) x accepted words <= 4, DFA(3,2){}; NFA(1,1), NFA(2,1) all, NFA(2,2,{}), NFA(3,1,<=4){}, eps-chains 4..5, 4-state and 3-state epsilon-heavy families{}, NFA(4,1,4) with q0=s0,|F|=1 (stride) x words <= 1..3; PDA(1,1,1,<=3), PDA(2,1,1,<=2), PDA(2,1,1,3){}, PDA(2,2,1,<=2){}, PDA(2,1,2,<=2), push family (3 states, two push moves with different symbols into one state, 26 244 automata, stride 1/2 in quick) x words <= 3 at closure limit {}; CNF(3) with <= {} rules x generated words 1..4 x leftmost/rightmost/any'.format(
                ' stride 1/4' if q else '', '<=4' if q else 'all', ' stride 1/4' if q else '', ' stride 1/16' if q else ' stride 1/2', ' stride 1/8' if q else '', ' stride 1/4' if q else '', PDA_LIMIT, 4 if q else 5),
                       'deviations': d},
            'exhaustive': True,
            'rule': 'every automaton x word (accepted: run validated against the transition relation; rejected: NFA/PDA must return None) under CPython order and every execution with <= d set-order deviations, loop-iteration budget as termination oracle; every CNF grammar x generated non-empty word x derivation type validated step by step; non-trivial = automaton with epsilon moves accepting a short word / PDA word inside the closure premise / word of length >= 3',
            'assumptions': ['PDA: a run must be produced only when every epsilon closure on the way has at most {} configurations (limit set to {} for this check); outside that premise a None or an exhausted budget is recorded, not reported'.format(PDA_LIMIT, PDA_LIMIT),
                            'DFA runs are checked for accepted words only', 'wave 5: coprime push/pop epsilon cycles (up to 5 + 5 states; accepting runs climb to 20 stack symbols with 12 states): a run is demanded when the library acceptance test accepts at the same limit (1000); stack symbols outside latin-1; all names equal but distinct str objects', 'wave 6: leftmost and rightmost derivation of a 400-letter word (799 steps, parse tree of 1200 nodes)']}
