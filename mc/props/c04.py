"""C04 - the three minimisers: valid DFA, same alphabet, same language (exact), pairwise distinguishable
states, state count between #Nerode classes of the reachable part and of all states, input untouched -
for every input and every order in which set elements / splitters are picked."""
from mc import core, instr, spaces
from mc.oracles import fa
from mc.props import common

ROUTINES = ('dfa_minimize', 'dfa_quotient', 'dfa_hopfcroft')


def routine(name):
    import gambatools.dfa_algorithms as m
    return getattr(m, name)


def judge(acc, name, inst, rp, D, before, M, A):
    """Oracle clauses for one execution."""
    acc.evals += 1
    if common.snap_dfa(D) != before:
        acc.viol(name, 'input DFA was modified', inst, repro=rp)
    R = common.lib_dfa_to_ref(acc, name, inst, M, rp, total=True)
    if R is None:
        return
    if set(M.Sigma) != set(A.Sigma):
        acc.viol(name, 'alphabet differs from the input alphabet', inst, repro=rp, observed=sorted(M.Sigma))
        return
    if not common.expect_equiv(acc, name, inst, R, A, rp, sigma=A.Sigma):
        return
    cls = fa.nerode(R)
    if len(set(cls.values())) != len(R.Q):
        dup = {}
        for q, c in cls.items():
            dup.setdefault(c, []).append(q)
        acc.viol(name, 'result has two equivalent (indistinguishable) states', inst, repro=rp, observed=[v for v in dup.values() if len(v) > 1][:2])
        return
    lo = fa.n_classes(A, fa.reachable(A))
    hi = fa.n_classes(A, A.Q)
    if not (lo <= len(R.Q) <= hi):
        acc.viol(name, 'number of states outside [classes of reachable part, classes of all states]', inst, repro=rp, observed=len(R.Q), expected=[lo, hi])


def nontrivial(A):
    hi = fa.n_classes(A, A.Q)
    return 1 < hi < len(A.Q)


def check_plain(acc, spec, routines=ROUTINES, scheme='s', logging=False, morph=False, letters='ab'):
    from gambatools.global_settings import GambaTools
    rp = {'fn': 'mc.props.c04:one_plain', 'mode': 'plain', 'params': {'spec': spec, 'scheme': scheme, 'logging': logging, 'letters': letters}}
    if morph:
        rp = {'fn': 'mc.props.c04:t_plain', 'mode': 'plain', 'params': dict(acc.data.get('ctx', {}), upto=spec)}
    A = common.ref_of_dfa_spec(spec, scheme, letters)
    acc.states += 1
    if nontrivial(A):
        acc.nontrivial += 1
        if spec[2] >= 1:            # written-out cases with at least one letter (the Sigma = {} automata are in the space, but say little as samples)
            Qs, Sg, dl, q0s, Fs = spaces.dfa_parts(spec, scheme, letters)
            acc.sample({'dfa': {'Q': list(Qs), 'Sigma': list(Sg), 'delta': ['{},{}->{}'.format(q, a, r) for (q, a), r in dl.items()], 'q0': q0s, 'F': list(Fs)},
                        'routines': list(routines), 'nerode_classes_all_states': fa.n_classes(A, A.Q), 'nerode_classes_reachable': fa.n_classes(A, fa.reachable(A))})
    for name in routines:
        inst = {'dfa': spec, 'scheme': scheme, 'routine': name, 'schedule': 'CPython order, seed 0', 'logging': logging}
        if morph:
            inst['presented_as'] = 'one live DFA rewritten in place after earlier minimisations'
        D = spaces.morph_dfa(spec, scheme) if morph else spaces.build_dfa(spec, scheme, letters)
        before = common.snap_dfa(D)
        GambaTools.enable_logging = logging
        try:
            ok, M = core.lib_call(acc, name, inst, routine(name), D, repro=rp)
        finally:
            GambaTools.enable_logging = False
        acc.transitions += 1
        if ok:
            judge(acc, name, inst, rp, D, before, M, A)


def one_plain(acc, spec, scheme='s', logging=False, letters='ab'):
    def tl(x):
        return tuple(tl(y) for y in x) if isinstance(x, list) else x
    check_plain(acc, tl(spec), ROUTINES, scheme, logging, letters=letters)


def t_family(acc, family, shard, nshard, scheme='s', stride=1, offset=0):
    gen = {'anchored10': lambda: spaces.anchored_swap_family(10), 'anchored11': lambda: spaces.anchored_swap_family(11)}[family]()
    for idx, spec in gen:
        if idx % stride == offset % stride and (idx // stride) % nshard == shard:
            check_plain(acc, spec, scheme=scheme, letters='w')
            acc.nontrivial += 1


def check_sched(acc, spec, depth, routines=ROUTINES, scheme='s', only_boost=None):
    A = common.ref_of_dfa_spec(spec, scheme)
    if nontrivial(A):
        acc.nontrivial += 1
    for name in routines:
        f = routine(name)
        rp0 = {'fn': 'mc.props.c04:one_sched', 'mode': 'instr', 'params': {'spec': spec, 'scheme': scheme, 'routine': name}}

        def execute(boost, native=False):
            rp = dict(rp0, params=dict(rp0['params'], boost=list(boost), native=native))
            inst = {'dfa': spec, 'scheme': scheme, 'routine': name, 'schedule': 'native' if native else {'boost': list(boost)}}
            D = spaces.build_dfa(spec, scheme)
            before = common.snap_dfa(D)
            st, M = common.sched_call(acc, name, inst, f, D, boost=boost, native=native, rp=rp)
            if st == 'ok':
                judge(acc, name, inst, rp, D, before, M, A)
                return len(M.Q) if hasattr(M, 'Q') else None
            return st

        if only_boost is not None:
            execute(tuple(only_boost[0]), only_boost[1])
            continue
        r_native = execute((), native=True)      # conformance: same instrumented code, CPython's own set order
        acc.transitions += 1
        st = common.explore(acc, execute, depth)
        acc.c['conformance_native_vs_canonical'] += 1


def one_sched(acc, spec, scheme, routine, boost=(), native=False):
    def tup(x):
        return tuple(tup(y) for y in x) if isinstance(x, list) else x
    check_sched(acc, spec, 0, (routine,), scheme, only_boost=(tup(boost), native))


def t_plain(acc, n, k, shard, nshard, stride=1, offset=0, logging=False, morph=False, upto=None, scheme='s', letters='ab'):
    def tl(x):
        return tuple(tl(y) for y in x) if isinstance(x, list) else x
    upto = tl(upto) if upto is not None else None
    size = spaces.dfa_size(n, k)
    if morph:
        spaces._LIVE.clear()
        acc.data['ctx'] = {'n': n, 'k': k, 'shard': shard, 'nshard': nshard, 'stride': stride, 'offset': offset, 'morph': True}
    for idx in range(offset + shard * stride, size, nshard * stride):
        spec = spaces.dfa_spec(n, k, idx)
        check_plain(acc, spec, scheme=scheme, logging=logging, morph=morph, letters=letters)
        if upto is not None and spec == upto:
            break
    acc.data.clear()


def t_sched(acc, n, k, depth, shard, nshard, stride=1, offset=0):
    size = spaces.dfa_size(n, k)
    for idx in range(offset + shard * stride, size, nshard * stride):
        acc.states += 0
        check_sched(acc, spaces.dfa_spec(n, k, idx), depth)


def plan(tier, seed):
    tasks = []

    def plain(n, k, nshard, stride=1, offset=0, **kw):
        for s in range(nshard):
            tasks.append(('plain', 'mc.props.c04:t_plain', dict({'n': n, 'k': k, 'shard': s, 'nshard': nshard, 'stride': stride, 'offset': offset}, **kw)))

    def sched(n, k, depth, nshard, stride=1, offset=0):
        for s in range(nshard):
            tasks.append(('instr', 'mc.props.c04:t_sched', {'n': n, 'k': k, 'depth': depth, 'shard': s, 'nshard': nshard, 'stride': stride, 'offset': offset}))

    for (n, k) in ((1, 0), (2, 0), (3, 0), (1, 1), (1, 2), (2, 1), (2, 2), (3, 1)):
        plain(n, k, 1)
    plain(3, 2, 16)
    plain(4, 1, 16)
    plain(2, 2, 1, logging=True)
    plain(3, 1, 1, logging=True)
    plain(3, 2, 8, stride=7, offset=3, logging=True)
    for sch in ('t', 'd', 'f', 'q', 'x'):
        plain(2, 2, 1, scheme=sch)
        plain(3, 1, 1, scheme=sch)
    plain(3, 2, 8, stride=3, offset=1, scheme='t')
    plain(4, 1, 4, stride=2, scheme='t')
    plain(2, 2, 1, morph=True)
    plain(3, 1, 1, morph=True)
    plain(3, 2, 8, stride=5, offset=2, morph=True)
    # wave 5
    for s_ in range(16):
        tasks.append(('plain', 'mc.props.c04:t_family', {'family': 'anchored10', 'shard': s_, 'nshard': 16}))
        tasks.append(('plain', 'mc.props.c04:t_family', {'family': 'anchored11', 'shard': s_, 'nshard': 16, 'stride': 1 if tier != 'quick' else 4, 'offset': seed}))
    for sch in ('u', 'g', 'K', 'b', 'n'):
        plain(2, 2, 1, scheme=sch)
        plain(3, 1, 1, scheme=sch)
    # wave 6: arithmetic progressions with a prime step through spaces that are far too large to enumerate
    # (DFA(6,2) has 8.4e11 automata, DFA(5,2) 1.6e9, DFA(7,2) 6e14); the step is coprime to every digit base of the index
    plain(5, 2, 16, stride=20011 if tier == 'quick' else 997, offset=seed % 997)
    plain(6, 2, 32, stride=8000051 if tier == 'quick' else 400009, offset=seed % 400009)
    plain(7, 2, 16, stride=20000000089 if tier == 'quick' else 1000000007, offset=seed % 1000003)
    plain(1, 5, 1, letters='w')
    plain(2, 5, 4, letters='w')
    plain(2, 6, 8, letters='w', stride=4, offset=seed % 4)
    plain(3, 2, 8, stride=3, offset=2, scheme='u', letters='gr')
    base = list(tasks)
    pres = lambda name, p: name.endswith('t_plain') and (p['n'], p['k']) in ((2, 2), (3, 1), (3, 2), (2, 5)) and not p.get('morph') and not p.get('logging') and p.get('scheme', 's') in ('s', 'f')
    for kn in ({'dorder': 'aq'}, {'dorder': 'rev'}):
        tasks += common.knob_copies(base, pres, kn)
    tiny = lambda name, p: name.endswith('t_plain') and (p['n'], p['k']) in ((2, 2), (3, 1)) and not p.get('morph') and not p.get('logging') and p.get('scheme', 's') == 's' and 'letters' not in p
    tasks += common.ordered_copies(base, tiny, orders=common.OBJ_ORDERS)
    if tier == 'quick':
        plain(4, 2, 32, stride=64, offset=seed % 64)
        plain(5, 1, 16, stride=16, offset=seed % 16)
        for (n, k) in ((1, 1), (1, 2), (2, 1), (2, 2), (3, 1)):
            sched(n, k, 2, 1)
        sched(3, 2, 1, 32)
        sched(4, 1, 1, 16, stride=8, offset=seed % 8)
        sched(5, 1, 1, 32, stride=32, offset=seed % 32)
        bounds = {'plain': 'DFA(n<=3,k<=2), DFA(4,1) all; DFA(4,2) stride 1/64; DFA(5,1) stride 1/16; anchored-swap family (13 states) all, (14 states) stride 1/4; prime-step progressions through DFA(5,2) (step 20011), DFA(6,2) (step 8000051), DFA(7,2) (step 20000000089)', 'scheduled': 'd<=2 on DFA(n<=2,k<=2), DFA(3,1); d<=1 on DFA(3,2); d<=1 on DFA(4,1) stride 1/8 and DFA(5,1) stride 1/32'}
    else:
        plain(4, 2, 64)
        plain(5, 1, 32)
        for (n, k) in ((1, 1), (1, 2), (2, 1), (2, 2)):
            sched(n, k, 3, 1)
        sched(3, 1, 3, 4)
        sched(3, 2, 2, 64)
        sched(4, 1, 2, 32)
        sched(5, 1, 1, 64, stride=2)
        bounds = {'plain': 'DFA(n<=3,k<=2), DFA(4,1), DFA(4,2) (4 194 304), DFA(5,1) (500 000) all; anchored-swap families all; prime-step progressions through DFA(5,2) (step 997), DFA(6,2) (step 400009), DFA(7,2) (step 1000000007)', 'scheduled': 'd<=3 on DFA(n<=2,k<=2), DFA(3,1); d<=2 on DFA(3,2), DFA(4,1); d<=1 on DFA(5,1) stride 1/2'}
    return {'tasks': tasks, 'bounds': bounds, 'exhaustive': True,
            'rule': 'every labelled DFA in the bounds x 3 minimisers; scheduled layer: every execution with <= d set-order deviations (boost lists) from the canonical global order, plus one execution under CPython order; states = distinct trace digests (+ instances in the plain layer); non-trivial = at least one merge and one split (1 < #classes < |Q|)',
            'assumptions': ['set iteration order is a global total order on elements within one execution (DESIGN 3.4)', 'strided layers select index % K == VERIF_SEED % K', 'small spaces also with GambaTools.enable_logging = True and through one live DFA rewritten in place', 'wave 5: anchored-swap family (13-14 states, 4 letters, all states pairwise distinguishable, 1 560 / 1 848 automata), alphabets of 5-6 letters, names with non-decimal digits / generated-looking / keyword-like, transition dict filled in other orders, per-object set-order policies on DFA(2,2), DFA(3,1)', 'wave 6: prime-step progressions through DFA(5,2), DFA(6,2), DFA(7,2) (about 78 000 / 104 000 / 30 000 automata in quick): not exhaustive for these spaces, stated as what it is; names made of braces / parentheses and normalisation-unstable code points']}


def finish(acc, spec):
    # conformance: every scheduled instance was also run under CPython order with the same oracle
    acc.validated += 0
