"""C18 - NFA union / concatenation / star: valid result, exact language, fresh new state, for arbitrary operand
names and epsilon spellings, after any number of earlier calls (shared default identifier generator)."""
import collections

from mc import core, hist, spaces
from mc.oracles import fa
from mc.props import common


def tup(x):
    return tuple(tup(y) for y in x) if isinstance(x, list) else x


OPS = ('nfa_union', 'nfa_concatenation', 'nfa_repetition')


# ---------------------------------------------------------------- reference constructions on snapshots
def ref_from_snap(s):
    Q, Sg, rel, q0, F, e = s
    return fa.from_parts(sorted(Q), sorted(Sg), list(rel), q0, F, e)


def ref_union(A, B):
    new = ('new',)
    d = collections.defaultdict(set)
    e = collections.defaultdict(set)
    for X in (A, B):
        for k, v in X.delta.items():
            d[k] |= v
        for k, v in X.eps.items():
            e[k] |= v
    e[new] = {A.q0, B.q0}
    return fa.FA(A.Q + B.Q + [new], set(A.Sigma) | set(B.Sigma), d, e, new, A.F | B.F)


def ref_concat(A, B):
    d = collections.defaultdict(set)
    e = collections.defaultdict(set)
    for X in (A, B):
        for k, v in X.delta.items():
            d[k] |= v
        for k, v in X.eps.items():
            e[k] |= v
    for f in A.F:
        e[f] = e[f] | {B.q0}
    return fa.FA(A.Q + B.Q, set(A.Sigma) | set(B.Sigma), d, e, A.q0, set(B.F))


def ref_star(A):
    new = ('new',)
    d = collections.defaultdict(set, {k: set(v) for k, v in A.delta.items()})
    e = collections.defaultdict(set, {k: set(v) for k, v in A.eps.items()})
    for f in A.F:
        e[f] = e[f] | {A.q0}
    e[new] = {A.q0}
    return fa.FA(A.Q + [new], A.Sigma, d, e, new, A.F | {new})


def call_op(op, args, gen):
    import gambatools.nfa_algorithms as na
    from gambatools.identifier_generator import IdentifierGenerator
    f = getattr(na, op)
    if op == 'nfa_concatenation' or gen == 'default':
        return f(*args)
    return f(*args, IdentifierGenerator(9 if gen == 'private9' else 0))


def judge(acc, op, inst, rp, snaps_before, args, result):
    """snaps_before: snapshots of the operands taken before the call."""
    acc.evals += 1
    R = common.lib_nfa_to_ref(acc, op, inst, result, rp)
    if R is None:
        return False
    refs = [ref_from_snap(s) for s in snaps_before]
    exp = {'nfa_union': lambda: ref_union(*refs), 'nfa_concatenation': lambda: ref_concat(*refs), 'nfa_repetition': lambda: ref_star(refs[0])}[op]()
    sigma = sorted(set(exp.Sigma) | set(R.Sigma))
    ok = common.expect_equiv(acc, op, inst, R, exp, rp, sigma=sigma,
                             clause='language is not the {} of the operand languages'.format({'nfa_union': 'union', 'nfa_concatenation': 'concatenation', 'nfa_repetition': 'Kleene star'}[op]))
    old_states = set()
    for s in snaps_before:
        old_states |= set(s[0])
    if op != 'nfa_concatenation':
        # a start state that equals an operand state other than an operand's own initial state can only come from a
        # clash of the generated name (re-using an operand's initial state is judged by the language clause alone)
        if result.q0 in old_states and result.q0 not in {s[3] for s in snaps_before}:
            acc.viol(op, 'the introduced state is not distinct from the operand states', inst, repro=rp, observed=result.q0)
            ok = False
        if not old_states <= set(result.Q):
            acc.c['result_drops_operand_states'] += 1
    if result.epsilon != snaps_before[0][5]:
        acc.c['result_epsilon_differs_from_operand_epsilon'] += 1
    return ok


# ---------------------------------------------------------------- (a) input space, each call from pristine state
def check_pair(acc, s1, s2, sch1, sch2, eps, gens=('default', 'private', 'private9'), logging=False):
    from gambatools.global_settings import GambaTools
    rp = {'fn': 'mc.props.c18:one_pair', 'mode': 'plain', 'params': {'s1': s1, 's2': s2, 'sch1': sch1, 'sch2': sch2, 'eps': eps, 'logging': logging}}
    acc.states += 1
    for op in OPS:
        for gen in gens:
            if op == 'nfa_concatenation' and gen != 'default':
                continue
            hist.pristine()
            GambaTools.enable_logging = logging
            N1 = spaces.build_nfa(s1, sch1[0], eps, 'sparse') if isinstance(sch1, str) else build_named(s1, sch1, eps)
            N2 = build_named(s2, sch2, eps)
            args = [N1] if op == 'nfa_repetition' else [N1, N2]
            snaps = [common.snap_nfa(a) for a in args]
            inst = {'op': op, 'id_generator': gen, 'operands': [show_snap(s) for s in snaps]}
            ok, r = core.lib_call(acc, op, inst, call_op, op, args, gen, repro=rp)
            acc.transitions += 1
            if ok:
                judge(acc, op, inst, rp, snaps, args, r)
                now = [common.snap_nfa(a) for a in args]
                if now != snaps:
                    acc.viol(op, 'an operand / earlier result was modified', inst, repro=rp)
                if logging:
                    # the operands must still be usable afterwards (a read of a defaultdict can leave entries behind)
                    for a in args:
                        if fa_invalid(a):
                            acc.viol(op, 'an operand is no longer a valid NFA after the call', inst, repro=rp, observed=fa_invalid(a))
    hist.pristine()


def fa_invalid(N):
    try:
        fa.from_lib_nfa(N)
        return None
    except Exception as e:
        return str(e)


def build_named(spec, names, eps):
    """Build an NFA from a spec with an explicit list of state names."""
    from gambatools.nfa import NFA
    _, n, k, tr, q0, fb = spec
    Sg = spaces.LETTERS[:k]
    delta = collections.defaultdict(set)
    for (p, x, q) in tr:
        delta[names[p], Sg[x] if x < k else eps].add(names[q])
    if spaces.KNOBS['shared']:
        # dict.fromkeys style: every key is present, keys with equal target sets hold ONE shared set object
        pool = {}
        for q in names[:n]:
            for a in Sg + [eps]:
                delta[q, a] = pool.setdefault(frozenset(delta[q, a]), delta[q, a])
    return NFA(set(names[:n]), set(Sg), delta, names[q0], {names[i] for i in range(n) if fb >> i & 1}, eps)


def show_snap(s):
    Q, Sg, rel, q0, F, e = s
    return {'Q': sorted(Q), 'Sigma': sorted(Sg), 'transitions': sorted('{} -{}-> {}'.format(p, a if a != e else 'eps', q) for (p, a, q) in rel), 'q0': q0, 'F': sorted(F), 'epsilon': e}


NAME_PAIRS = [(['s0', 's1'], ['r0', 'r1']), (['q0', 'q1'], ['q2', 'q3']), (['q1', 'q0'], ['q3', 'q2']), (['q2', 'q3'], ['q0', 'q1']), (['q0', 'p'], ['q1', 'r']),
              (['q9', 'q10'], ['q0', 'q8']), (['q0', 'q9'], ['q10', 'q11']), (['q10', 'q9'], ['q1', 'q99'])]


def one_pair(acc, s1, s2, sch1, sch2, eps, logging=False):
    check_pair(acc, tup(s1), tup(s2), list(sch1), list(sch2), eps, logging=logging)


def t_pairs(acc, n1, t1, n2, t2, shard, nshard, stride, offset, eps_list, name_pairs):
    A = [s for _, s in spaces.nfas(n1, 1, t1)]
    B = [s for _, s in spaces.nfas(n2, 1, t2)]
    idx = 0
    for s1 in A:
        for s2 in B:
            idx += 1
            if idx % stride != offset % stride or (idx // stride) % nshard != shard:
                continue
            for eps in eps_list:
                for (na, nb) in name_pairs:
                    check_pair(acc, s1, s2, na, nb, eps)
            if idx % 3 == 0:
                check_pair(acc, s1, s2, name_pairs[0][0], name_pairs[0][1], eps_list[-1], logging=True)
            if s1[3] and s2[3]:
                acc.nontrivial += 1


# ---------------------------------------------------------------- (b) histories
def run_history(acc, pool_specs, eps, depth, gens, part=0, nparts=1, logging=False):
    """BFS over call sequences of the three constructions on a pool of operands with pairwise disjoint states."""
    def make_pool():
        return [build_named(s, names, eps) for (s, names) in pool_specs]

    def enabled(pool):
        evs = []
        for i, A in enumerate(pool):
            for gen in gens:
                evs.append(('nfa_repetition', (i,), gen))
            for j, B in enumerate(pool):
                if i != j and A.Q.isdisjoint(B.Q):
                    evs.append(('nfa_concatenation', (i, j), 'default'))
                    for gen in gens:
                        evs.append(('nfa_union', (i, j), gen))
        return evs

    def apply(pool, ev):
        from gambatools.global_settings import GambaTools
        op, idxs, gen = ev
        GambaTools.enable_logging = logging
        try:
            return call_op(op, [pool[i] for i in idxs], gen)
        finally:
            GambaTools.enable_logging = False

    def canon(pool):
        return tuple(common.snap_nfa(N) for N in pool)

    def on_step(hist_, ev, before, pool, r, failed):
        op, idxs, gen = ev
        rp = {'fn': 'mc.props.c18:one_history', 'mode': 'plain', 'params': {'pool': pool_specs, 'eps': eps, 'history': hist_ + [ev], 'logging': logging}}
        inst = {'pool': [show_snap(s) for s in before[:len(pool_specs)]], 'history': [list(e) for e in hist_], 'event': list(ev)}
        if failed is not None:
            acc.viol(op, 'raises after earlier calls' if hist_ else 'raises', inst, repro=rp, error=core.describe_exc(failed))
            return False
        after = canon(pool)
        if after != before:
            changed = [i for i, (a, b) in enumerate(zip(before, after)) if a != b]
            acc.viol(op, 'an operand / earlier result was modified', inst, repro=rp, observed={'pool_index': changed})
            return False
        return judge(acc, op, inst, rp, [before[i] for i in idxs], None, r)

    states, transitions, completed = hist.bfs(make_pool, enabled, apply, canon, depth, on_step, part=part, nparts=nparts)
    acc.states += states
    acc.transitions += transitions
    acc.c['history_states'] += states
    acc.c['history_transitions'] += transitions
    acc.mx('history_depth_completed', completed)
    hist.pristine()


def one_history(acc, pool, eps, history, logging=False):
    from gambatools.global_settings import GambaTools
    """Replays one history without the explorer."""
    pool_specs = [(tup(s), list(n)) for s, n in pool]
    hist.pristine()
    live = [build_named(s, names, eps) for (s, names) in pool_specs]
    for k, ev in enumerate(history):
        op, idxs, gen = ev[0], tuple(ev[1]), ev[2]
        before = tuple(common.snap_nfa(N) for N in live)
        inst = {'history': history[:k], 'event': list(ev)}
        GambaTools.enable_logging = logging
        try:
            ok, r = core.lib_call(acc, op, inst, call_op, op, [live[i] for i in idxs], gen)
        finally:
            GambaTools.enable_logging = False
        if not ok:
            break
        after = tuple(common.snap_nfa(N) for N in live)
        if after != before:
            acc.viol(op, 'an operand / earlier result was modified', inst)
            break
        if not judge(acc, op, inst, None, [before[i] for i in idxs], None, r):
            break
        live.append(r)
    hist.pristine()


POOLS = [
    # (spec, names) ...  one-letter alphabets; operands pairwise disjoint
    [(('nfa', 2, 1, ((0, 0, 1),), 0, 2), ['q0', 'q1']), (('nfa', 2, 1, ((0, 0, 1), (1, 0, 0)), 0, 1), ['s0', 's1'])],
    [(('nfa', 1, 1, (), 0, 1), ['q1']), (('nfa', 1, 1, ((0, 0, 0),), 0, 1), ['q0'])],
    [(('nfa', 2, 1, ((0, 1, 1), (1, 0, 1)), 0, 2), ['q2', 'q0']), (('nfa', 1, 1, (), 0, 0), ['q1']), (('nfa', 1, 1, ((0, 0, 0),), 0, 1), ['r'])],
    [(('nfa', 2, 2, ((0, 0, 1), (1, 1, 0)), 0, 2), ['a0', 'a1']), (('nfa', 2, 2, ((0, 1, 1), (0, 2, 1)), 0, 2), ['q1', 'q3'])],
    [(('nfa', 2, 1, ((0, 0, 1), (1, 1, 0)), 0, 2), ['q9', 'q10']), (('nfa', 1, 1, ((0, 0, 0),), 0, 1), ['q0']), (('nfa', 1, 1, (), 0, 1), ['c'])],
]


def t_hist(acc, pool_index, eps, depth, gens, logging=False):
    run_history(acc, POOLS[pool_index], eps, depth, gens, logging=logging)
    acc.nontrivial += 1
    acc.sample({'pool': [[list(s), n] for s, n in POOLS[pool_index]], 'epsilon': eps, 'depth': depth})


def plan(tier, seed):
    tasks = []
    q = tier == 'quick'
    P = 'mc.props.c18:'
    E = ['', '_', 'ε']
    tasks.append(('plain', P + 't_pairs', {'n1': 1, 't1': None, 'n2': 1, 't2': None, 'shard': 0, 'nshard': 1, 'stride': 1, 'offset': 0, 'eps_list': E, 'name_pairs': NAME_PAIRS}))
    ns = 16
    for s in range(ns):
        tasks.append(('plain', P + 't_pairs', {'n1': 2, 't1': 3, 'n2': 2, 't2': 3, 'shard': s, 'nshard': ns, 'stride': 256 if q else 16, 'offset': seed, 'eps_list': E, 'name_pairs': NAME_PAIRS[:3]}))
        tasks.append(('plain', P + 't_pairs', {'n1': 2, 't1': 2, 'n2': 1, 't2': None, 'shard': s, 'nshard': ns, 'stride': 8 if q else 1, 'offset': seed, 'eps_list': E, 'name_pairs': NAME_PAIRS}))
    for pi in range(len(POOLS)):
        for eps in E:
            tasks.append(('plain', P + 't_hist', {'pool_index': pi, 'eps': eps, 'depth': 2, 'gens': ['default', 'private']}))
        tasks.append(('plain', P + 't_hist', {'pool_index': pi, 'eps': '', 'depth': 3, 'gens': ['default']}))
        tasks.append(('plain', P + 't_hist', {'pool_index': pi, 'eps': 'ε', 'depth': 2, 'gens': ['default', 'private9'], 'logging': True}))
        if not q:
            tasks.append(('plain', P + 't_hist', {'pool_index': pi, 'eps': '_', 'depth': 3, 'gens': ['default', 'private']}))
    base = list(tasks)
    tasks += common.knob_copies(base, lambda name, p: name.endswith('t_pairs') and (p['n1'] == 1 or p['shard'] % 4 == 0) or (name.endswith('t_hist') and p['depth'] == 2 and p['eps'] == '' ), {'shared': True})
    return {'tasks': tasks, 'bounds': {'pairs': 'NFA(1,1,all)^2 all; NFA(2,1,<=3)^2 stride 1/{}; NFA(2,1,<=2) x NFA(1,1) stride 1/{}; 5 name schemes (s/r, q0q1/q2q3, q1q0/q3q2, q2q3/q0q1, q0p/q1r); epsilon spelled \'\', _, ε; default and private identifier generator'.format(256 if q else 16, 8 if q else 1),
                                       'histories': '{} pools x 3 epsilon spellings, all call sequences of depth <= 2 (default + private generator), depth <= 3 with the default generator'.format(len(POOLS))},
            'exhaustive': True,
            'rule': 'pairs: every operand pair x name scheme x epsilon spelling x operation, each from the pristine library state; histories: breadth-first search over all sequences of the three constructions on a pool (results join the pool), every step judged against reference constructions on operand snapshots taken before the call; states = canonical pool contents + hidden generator counters',
            'assumptions': ['operands of one call have disjoint state sets and the same epsilon symbol (precondition of the constructions)',
                            'pristine state = module globals, function defaults and class attributes restored from a deep copy taken at import', 'also with GambaTools.enable_logging = True, with a private generator starting at 9, and with operand names around the decimal carry (q9, q10)', 'wave 5: operands whose transition dict holds ONE shared set object under all keys with equal targets (dict.fromkeys style, all keys present)']}
