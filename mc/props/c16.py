"""C16 - print -> parse round trip for DFA, NFA, PDA, TM, regular expressions (both syntaxes) and simple grammars."""
import collections

from mc import core, spaces
from mc.oracles import fa, rx, cfg, pda, tm
from mc.props import common
from mc.props.c01 import _nfa_space


def tup(x):
    return tuple(tup(y) for y in x) if isinstance(x, list) else x


def roundtrip(acc, kind, inst, rp, obj, printer, parser, fields):
    """fields(obj) -> comparable description.  Returns nothing; records violations."""
    acc.states += 1
    ok, text = core.lib_call(acc, printer.__name__, inst, printer, obj, repro=rp)
    acc.transitions += 1
    if not ok:
        return
    if not isinstance(text, str):
        acc.viol(printer.__name__, 'printer does not return text', inst, repro=rp, observed=text)
        return
    if acc.states % 3 == 0:
        # the same text first goes through the generic parser (as show() does in the notebooks); whatever that call
        # does or raises, it must not influence the specific parser
        try:
            from gambatools.automaton_algorithms import parse_automaton
            parse_automaton(text)
        except Exception:
            pass
    ok, back = core.lib_call(acc, parser.__name__, dict(inst, text=text), parser, text, repro=rp, clause='printed text is rejected by the parser')
    acc.transitions += 1
    if not ok:
        return
    acc.evals += 1
    acc.validated += 1
    try:
        want = fields(obj)
        got = fields(back)
    except Exception as e:
        acc.viol(parser.__name__, 'parsed object is malformed', dict(inst, text=text), repro=rp, observed=core.describe_exc(e))
        return
    if got != want:
        diff = [k for k in want if want[k] != got.get(k)]
        acc.viol(kind + ' round trip', 'parse(print(x)) differs from x', dict(inst, text=text), repro=rp,
                 observed={k: got.get(k) for k in diff}, expected={k: want[k] for k in diff})
        return
    if acc.states % 2 == 0:
        reparse_after_poison(acc, kind, inst, rp, parser, text, back, want, fields)


def poison(x, depth=0, seen=None):
    """Destroys a result in place (the caller owns it): every container reachable through attributes is emptied,
    element objects first.  A parser that hands out parts of a remembered earlier result is exposed by the next parse."""
    seen = set() if seen is None else seen
    if id(x) in seen or depth > 6:
        return
    seen.add(id(x))
    if isinstance(x, (str, int, float, bool, type(None), frozenset, tuple)):
        return
    if isinstance(x, dict):
        for v in list(x.values()):
            poison(v, depth + 1, seen)
        x.clear()
    elif isinstance(x, (list, set)):
        for v in list(x):
            poison(v, depth + 1, seen)
        x.clear()
    elif hasattr(x, '__dict__'):
        for k, v in list(vars(x).items()):
            poison(v, depth + 1, seen)
            if isinstance(v, list):
                setattr(x, k, [])


def reparse_after_poison(acc, kind, inst, rp, parser, text, back, want, fields):
    poison(back)
    ok, again = core.lib_call(acc, parser.__name__, dict(inst, text=text), parser, text, repro=rp, clause='printed text is rejected by the parser (second parse of the same text)')
    acc.transitions += 1
    if not ok:
        return
    try:
        got = fields(again)
    except Exception as e:
        acc.viol(parser.__name__, 'parsed object is malformed (second parse, after the caller destroyed the first result)', dict(inst, text=text), repro=rp, observed=core.describe_exc(e))
        return
    if got != want:
        acc.viol(kind + ' round trip', 'a second parse of the same text differs after the caller modified the first result', dict(inst, text=text), repro=rp, observed=str(got)[:400])


def f_dfa(D):
    return {'Q': set(D.Q), 'Sigma': set(D.Sigma), 'delta': dict(D.delta), 'q0': D.q0, 'F': set(D.F)}


def f_nfa(N):
    return {'Q': set(N.Q), 'Sigma': set(N.Sigma), 'delta': {(p, a, q) for (p, a), R in N.delta.items() for q in R}, 'q0': N.q0, 'F': set(N.F), 'epsilon': N.epsilon}


def f_pda(P):
    return {'Q': set(P.Q), 'Sigma': set(P.Sigma), 'Gamma': set(P.Gamma), 'delta': {(p, a, u, q, v) for (p, a, u), R in P.delta.items() for (q, v) in R},
            'q0': P.q0, 'F': set(P.F), 'epsilon': P.epsilon}


def f_tm(T):
    return {'Q': set(T.Q), 'Sigma': set(T.Sigma), 'Gamma': set(T.Gamma), 'delta': {k: tuple(v) for k, v in T.delta.items()}, 'q0': T.q0,
            'accept': T.q_accept, 'reject': T.q_reject, 'blank': T.blank}


def t_dfa(acc, n, k, shard, nshard, scheme='s', letters='ab'):
    from gambatools.dfa_algorithms import print_dfa, parse_dfa
    for idx in range(shard, spaces.dfa_size(n, k), nshard):
        spec = spaces.dfa_spec(n, k, idx)
        rp = {'fn': 'mc.props.c16:one', 'mode': 'plain', 'params': {'kind': 'dfa', 'spec': spec, 'opt': [scheme, letters]}}
        D = spaces.build_dfa(spec, scheme, letters)
        roundtrip(acc, 'DFA', {'dfa': spec, 'scheme': scheme}, rp, D, print_dfa, parse_dfa, f_dfa)
        if n >= 2 and k >= 1:
            acc.nontrivial += 1
            acc.sample({'dfa': spaces.dfa_parts(spec, scheme, letters), 'text': print_dfa(D)}) if idx % 97 == 5 else None


def t_nfa(acc, space, shard, nshard, variants):
    from gambatools.nfa_algorithms import print_nfa, parse_nfa
    for idx, spec in spaces.shard(_nfa_space(tup(space)), shard, nshard):
        for (scheme, eps, enc) in variants:
            rp = {'fn': 'mc.props.c16:one', 'mode': 'plain', 'params': {'kind': 'nfa', 'spec': spec, 'opt': [scheme, eps, enc]}}
            N = spaces.build_nfa(spec, scheme, eps, enc)
            roundtrip(acc, 'NFA', {'nfa': spec, 'scheme': scheme, 'eps': eps, 'enc': enc}, rp, N, print_nfa, parse_nfa, f_nfa)
            if len(spec[3]) >= 2:
                acc.nontrivial += 1


def t_pda(acc, n, k, g, t, shard, nshard, stack, eps, stride=1, offset=0, scheme='s'):
    from gambatools.pda_algorithms import print_pda, parse_pda
    for idx, spec in pda.pdas(n, k, g, t):
        if idx % stride == offset % stride and (idx // stride) % nshard == shard:
            rp = {'fn': 'mc.props.c16:one', 'mode': 'plain', 'params': {'kind': 'pda', 'spec': spec, 'opt': [list(stack), eps, scheme]}}
            P = pda.build(spec, tuple(stack), scheme, eps)
            roundtrip(acc, 'PDA', {'pda': pda.show(spec, tuple(stack)), 'eps': eps}, rp, P, print_pda, parse_pda, f_pda)
            if len(spec[4]) >= 2:
                acc.nontrivial += 1
                if idx % 997 == 3:
                    acc.sample({'pda': pda.show(spec, tuple(stack)), 'text': print_pda(P)})


def build_tm(spec, blank, empty_sigma, kw=None):
    from gambatools.tm import TM
    Q, sigma, gamma, delta, q0, qa, qr, blank = tm.parts(spec, blank, **(kw or {}))
    if empty_sigma:
        sigma = []
    return TM(set(Q), set(sigma), set(gamma), dict(delta), q0, qa, qr, blank)


def t_tm(acc, w, g, shard, nshard, blank, empty_sigma, stride=1, offset=0, kw=None):
    from gambatools.tm_algorithms import print_tm, parse_tm
    gen = [(i, s) for i, s in enumerate(tm.tm_halting_start(g))] if w == 0 else tm.tms(w, g)
    for idx, spec in gen:
        if idx % stride == offset % stride and (idx // stride) % nshard == shard:
            rp = {'fn': 'mc.props.c16:one', 'mode': 'plain', 'params': {'kind': 'tm', 'spec': spec, 'opt': [blank, empty_sigma, kw]}}
            T = build_tm(spec, blank, empty_sigma, kw)
            roundtrip(acc, 'TM', {'tm': tm.show(spec, blank), 'empty_sigma': empty_sigma}, rp, T, print_tm, parse_tm, f_tm)
            acc.nontrivial += 1


def check_re(acc, spec):
    from gambatools.regexp import print_regexp, print_regexp_simple
    from gambatools.regexp_parser import parse_regexp
    from gambatools.regexp_simple_parser import parse_simple_regexp
    rp = {'fn': 'mc.props.c16:one', 'mode': 'plain', 'params': {'kind': 're', 'spec': spec, 'opt': None}}
    r = rx.to_lib(spec)
    acc.states += 1
    G = rx.glushkov(spec, ['a', 'b'])
    for pname, printer, parser in (('str', str, parse_regexp), ('print_regexp', print_regexp, parse_regexp), ('print_regexp_simple', print_regexp_simple, parse_simple_regexp)):
        inst = {'regexp': rx.show(spec), 'printer': pname}
        ok, text = core.lib_call(acc, pname, inst, printer, r, repro=rp)
        acc.transitions += 1
        if not ok:
            continue
        ok, back = core.lib_call(acc, parser.__name__, dict(inst, text=text), parser, text, repro=rp, clause='printed text is rejected by the parser')
        acc.transitions += 1
        if not ok:
            continue
        acc.evals += 1
        acc.validated += 1
        try:
            bs = rx.from_lib(back)
        except rx.Malformed as e:
            acc.viol(parser.__name__, 'parsed object is not a regular expression', dict(inst, text=text), repro=rp, observed=str(e))
            continue
        w = fa.equivalent(rx.glushkov(bs, ['a', 'b']), G, sigma=['a', 'b'])
        if w is not None:
            acc.viol('regexp round trip', 're-parsed expression denotes a different language', dict(inst, text=text), repro=rp, observed={'reparsed': rx.show(bs), 'word': w})
            continue
        ok, text2 = core.lib_call(acc, pname, inst, printer, back, repro=rp)
        if ok and text2 != text:
            acc.viol('regexp round trip', 're-parsed expression prints differently', dict(inst, text=text), repro=rp, observed=text2)
    if rx.nodes(spec) >= 4:
        acc.nontrivial += 1
        if rx.nodes(spec) == 6 and hash(spec) % 300 == 0:
            acc.sample({'regexp': rx.show(spec), 'simple': print_regexp_simple(r), 'str': str(r)})


def t_re(acc, m, shard, nshard):
    for idx, spec in rx.trees_up_to(m):
        if idx % nshard == shard:
            check_re(acc, spec)


def normalise_grammar(spec):
    """Only grammars expressible in the simple format: every variable has a rule, start owns the first rule,
    Sigma = used terminals, V = variables with rules (unused ones dropped)."""
    _, V, Sg, rules, S = cfg.start_first(spec)
    lhs = {l for l, _ in rules}
    used_vars = {x for _, rhs in rules for x in rhs if x in V}
    if not used_vars <= lhs or S not in lhs:
        return None
    if rules[0][0] != S:
        return None
    terms = {x for _, rhs in rules for x in rhs if x not in V}
    return ('cfg', tuple(sorted(lhs)), tuple(sorted(terms)), rules, S)


def f_cfg(G):
    by = collections.OrderedDict()
    for r in G.R:
        by.setdefault(str(r.variable), []).append(tuple(map(str, r.alternative.symbols)))
    return {'V': set(map(str, G.V)), 'Sigma': set(map(str, G.Sigma)), 'S': str(G.S), 'rules': dict(by), 'order': list(by)}


def check_cfg(acc, spec, epsilon='ε'):
    from gambatools.cfg_algorithms import cfg_print_simple, parse_simple_cfg
    g = normalise_grammar(spec)
    if g is None:
        acc.c['grammar_not_expressible_in_simple_format'] += 1
        return
    rp = {'fn': 'mc.props.c16:one', 'mode': 'plain', 'params': {'kind': 'cfg', 'spec': g, 'opt': epsilon}}
    G = cfg.to_lib(g, epsilon)
    inst = {'grammar': cfg.show(g), 'grammar_epsilon_symbol': epsilon}
    acc.states += 1
    ok, text = core.lib_call(acc, 'cfg_print_simple', inst, cfg_print_simple, G, repro=rp)
    acc.transitions += 1
    if not ok:
        return
    ok, back = core.lib_call(acc, 'parse_simple_cfg', dict(inst, text=text), parse_simple_cfg, text, repro=rp, clause='printed text is rejected by the parser')
    acc.transitions += 1
    if not ok:
        return
    acc.evals += 1
    acc.validated += 1
    acc.nontrivial += len(g[3]) >= 3
    try:
        want = f_cfg(G)
        if f_cfg(back) != want or not (back == G):
            acc.viol('grammar round trip', 'parse(print(G)) differs from G', dict(inst, text=text), repro=rp, observed=str(back))
            return
    except Exception as e:
        acc.viol('parse_simple_cfg', 'parsed object is malformed', dict(inst, text=text), repro=rp, observed=core.describe_exc(e))
        return
    # the caller owns the parsed grammar: transform it in place with the library's own procedures (or destroy it), parse again
    import gambatools.cfg_algorithms as ca
    how = acc.states % 3
    try:
        if how == 0:
            ca.cfg_eliminate_terminals_in_place(back)
        elif how == 1:
            ca.cfg_make_rules_of_length_two_in_place(back)
        poison(back)
    except Exception:
        poison(back)
    reparse_after_poison(acc, 'grammar', inst, rp, parse_simple_cfg, text, back, want, f_cfg)


def t_cfg(acc, space, shard, nshard, stride=1, offset=0):
    gen = cfg.cnf3() if space == 'cnf3' else cfg.cfg2(space == 'cfg2+')
    for idx, spec in gen:
        if idx % stride == offset % stride and (idx // stride) % nshard == shard:
            check_cfg(acc, spec)
            if (idx // stride) % 4 == 0:
                check_cfg(acc, spec, 'e')       # the grammar object carries another epsilon symbol; 'e' is not a terminal of it
            if (idx // stride) % 4 == 1:
                check_cfg(acc, spec, '_')


def one(acc, kind, spec, opt):
    spec = tup(spec)
    if kind == 'dfa':
        from gambatools.dfa_algorithms import print_dfa, parse_dfa
        roundtrip(acc, 'DFA', {'dfa': spec}, None, spaces.build_dfa(spec, *(opt if isinstance(opt, (list, tuple)) else [opt])), print_dfa, parse_dfa, f_dfa)
    elif kind == 'nfa':
        from gambatools.nfa_algorithms import print_nfa, parse_nfa
        roundtrip(acc, 'NFA', {'nfa': spec}, None, spaces.build_nfa(spec, *opt), print_nfa, parse_nfa, f_nfa)
    elif kind == 'pda':
        from gambatools.pda_algorithms import print_pda, parse_pda
        roundtrip(acc, 'PDA', {'pda': spec}, None, pda.build(spec, tuple(opt[0]), opt[2] if len(opt) > 2 else 's', opt[1]), print_pda, parse_pda, f_pda)
    elif kind == 'tm':
        from gambatools.tm_algorithms import print_tm, parse_tm
        roundtrip(acc, 'TM', {'tm': spec}, None, build_tm(spec, opt[0], opt[1], opt[2] if len(opt) > 2 else None), print_tm, parse_tm, f_tm)
    elif kind == 're':
        check_re(acc, spec)
    elif kind == 'cfg':
        check_cfg(acc, spec, opt or 'ε')


def plan(tier, seed):
    tasks = []
    P = 'mc.props.c16:'
    q = tier == 'quick'

    def add(fn, nshard, **kw):
        tasks.extend(('plain', P + fn, dict(kw, shard=s, nshard=nshard)) for s in range(nshard))

    for (n, k) in ((1, 0), (2, 0), (3, 0), (1, 1), (1, 2), (2, 1), (2, 2), (3, 1)):
        add('t_dfa', 1, n=n, k=k)
    add('t_dfa', 8, n=3, k=2)
    add('t_dfa', 1, n=2, k=2, scheme='q')
    NV = [['s', '_', 'sparse'], ['s', 'ε', 'sparse'], ['s', '_', 'total'], ['q', 'ε', 'empties'], ['k', '_', 'sparse']]
    add('t_nfa', 1, space=['nfa', 1, 0, None, False], variants=NV)
    add('t_nfa', 1, space=['nfa', 1, 1, None, False], variants=NV)
    add('t_nfa', 1, space=['nfa', 1, 2, None, False], variants=NV)
    add('t_nfa', 1, space=['nfa', 2, 0, None, False], variants=NV)
    add('t_nfa', 4, space=['nfa', 2, 1, None, False], variants=NV)
    add('t_nfa', 16, space=['nfa', 2, 2, None, False], variants=(NV[:2] + NV[4:]) if q else NV)
    add('t_nfa', 8, space=['nfa', 3, 1, 3, False], variants=NV[:1])
    add('t_pda', 1, n=1, k=1, g=1, t=4, stack=['x'], eps='_')
    add('t_pda', 1, n=1, k=1, g=1, t=4, stack=['$'], eps='ε')
    add('t_pda', 16, n=2, k=1, g=1, t=3, stack=['x'], eps='_', stride=2 if q else 1, offset=seed)
    add('t_pda', 8, n=2, k=2, g=1, t=2, stack=['x'], eps='ε')
    add('t_pda', 8, n=2, k=1, g=2, t=2, stack=['x', '$'], eps='_')
    add('t_pda', 4, n=2, k=1, g=2, t=2, stack=['%', '#'], eps='_')
    add('t_pda', 2, n=1, k=1, g=2, t=3, stack=['%', '&'], eps='ε')
    add('t_pda', 4, n=2, k=1, g=1, t=2, stack=['x'], eps='_', scheme='k')
    add('t_tm', 2, w=1, g=3, blank='_', empty_sigma=False, kw={'gamma': ['a', '%', '_'], 'sigma': ['a']})
    add('t_tm', 2, w=1, g=3, blank='□', empty_sigma=False, kw={'gamma': ['%', '#', '□'], 'sigma': ['%'], 'names': ['epsilon']})
    add('t_tm', 4, w=2, g=2, blank='_', empty_sigma=False, stride=16, kw={'names': ['epsilon', 'stack_symbols']})
    # wave 5: each blank spelling with the OTHER blank spelling as an ordinary tape / input symbol
    add('t_tm', 2, w=1, g=3, blank='_', empty_sigma=False, kw={'gamma': ['a', '□', '_'], 'sigma': ['a']})
    add('t_tm', 2, w=1, g=3, blank='_', empty_sigma=False, kw={'gamma': ['a', '□', '_'], 'sigma': ['a', '□']})
    add('t_tm', 2, w=1, g=3, blank='□', empty_sigma=False, kw={'gamma': ['a', '_', '□'], 'sigma': ['a', '_']})
    add('t_tm', 2, w=1, g=3, blank='□', empty_sigma=False, kw={'gamma': ['_', 'a', '□'], 'sigma': ['a'], 'order': 'symbols', 'names': ['Blank']})
    add('t_tm', 2, w=1, g=3, blank='b', empty_sigma=False, kw={'gamma': ['a', '_', 'b'], 'sigma': ['a'], 'names': ['q₀']})
    for sch in ('u', 'g', 'K', 'f', 'n'):
        add('t_dfa', 1, n=2, k=2, scheme=sch)
        if sch != 'g':
            add('t_dfa', 1, n=3, k=1, scheme=sch)      # the third name of scheme g is the keyword accept: not a DFA state name
        add('t_pda', 2, n=2, k=1, g=1, t=2, stack=['x'], eps='_', scheme=sch)
    add('t_nfa', 4, space=['nfa', 2, 1, None, False], variants=[['u', '_', 'sparse'], ['g', 'ε', 'sparse'], ['K', '_', 'total'], ['f', 'ε', 'sparse'], ['n', '_', 'sparse']])
    # wave 6: code points that change under unicode normalisation as state names, input, stack and tape symbols
    add('t_dfa', 1, n=2, k=2, scheme='n', letters='nf')
    add('t_dfa', 1, n=1, k=3, scheme='s', letters='nf')
    add('t_pda', 2, n=2, k=1, g=2, t=2, stack=['\u2126', '\u212a'], eps='_', scheme='n')
    add('t_tm', 2, w=1, g=3, blank='_', empty_sigma=False, kw={'gamma': ['\u2126', 'K', '_'], 'sigma': ['\u2126'], 'names': ['\u212a']})
    add('t_tm', 2, w=1, g=3, blank='\u212a', empty_sigma=False, kw={'gamma': ['a', 'K', '\u212a'], 'sigma': ['a', 'K']})
    add('t_pda', 2, n=2, k=1, g=2, t=2, stack=['γ', 'Ω'], eps='ε', scheme='u')
    for blank in ('_', '□'):
        for es in (False, True):
            add('t_tm', 1, w=0, g=2, blank=blank, empty_sigma=es)
            add('t_tm', 1, w=1, g=2, blank=blank, empty_sigma=es)
            add('t_tm', 2, w=1, g=3, blank=blank, empty_sigma=es)
    add('t_tm', 16, w=2, g=2, blank='_', empty_sigma=False, stride=4 if q else 1, offset=seed)
    add('t_tm', 8, w=2, g=2, blank='□', empty_sigma=True, stride=16 if q else 4, offset=seed)
    add('t_re', 64, m=8 if q else 9)
    add('t_cfg', 16, space='cfg2', stride=2 if q else 1, offset=seed)
    add('t_cfg', 16, space='cfg2+', stride=4 if q else 1, offset=seed)
    add('t_cfg', 8, space='cnf3')
    base = list(tasks)
    pres = lambda name, p: (name.endswith('t_dfa') and (p['n'], p['k']) in ((2, 2), (3, 1)) and 'scheme' not in p) or (name.endswith('t_nfa') and p['space'] == ['nfa', 2, 1, None, False] and p['variants'] is NV) or (name.endswith('t_pda') and p['n'] == 1)
    for kn in ({'dorder': 'aq'}, {'dorder': 'rev'}):
        tasks += common.knob_copies(base, pres, kn)
    return {'tasks': tasks, 'bounds': {'spaces': 'DFA(n<=3,k<=2, k=0); NFA(1,k),(2,k) all x eps _/ε x encodings; NFA(3,1,<=3); PDA(1,1,1,<=4), PDA(2,1,1,<=3), PDA(2,2,1,<=2), PDA(2,1,2,<=2) with stack symbols x,$; TM(0,2), TM(1,2), TM(1,3), TM(2,2) with blank _/□ and Sigma possibly empty; RE({}) in 3 printers; expressible grammars of CFG2, CFG2+, CNF(3){}'.format(8 if q else 9, ' (strided)' if q else '')},
            'exhaustive': True,
            'rule': 'every object of the spaces with a printable epsilon/blank: parse(print(x)) compared field by field with x; expressions: exact language equality and identical printed form after re-parsing; grammars: == and own field-wise comparison; non-trivial = object with >= 2 transitions / >= 4 nodes / >= 3 rules',
            'assumptions': ['epsilon \'\' is not printable and not in the space', 'only grammars expressible in the simple format (every variable has a rule, start variable owns the first rule)', 'state names that are keywords of OTHER formats (accept, reject, blank, ... for an NFA or PDA; epsilon, stack_symbols for a TM) are legal and in the space; %, #, &, $ as stack / tape symbols; grammar objects with epsilon symbol ε, _ or e; one text in three first goes through the generic parse_automaton', 'wave 5: every other parsed result is destroyed in place (grammars: first transformed by the in-place procedures) and the same text parsed again; TMs with one blank spelling as blank and the other as an ordinary symbol; names with non-decimal digits / outside latin-1 / keywords in another case / generated-looking; transition dicts filled in other orders', 'wave 6: KELVIN SIGN / OHM SIGN / ANGSTROM SIGN (code points that unicode normalisation maps to K, Omega, A-ring) as names and symbols, next to their ordinary look-alikes']}
