"""C03 - subset construction: valid total DFA over the same alphabet, same language (exact), all states
reachable, initial state = epsilon closure of the NFA's initial state."""
import re

from mc import core, spaces
from mc.oracles import fa
from mc.props import common
from mc.props.c01 import _nfa_space


def decode_state_set(name):
    """The documented set notation: '{a,b}' (what check_nfa_to_dfa_answer itself decodes). None if not decodable."""
    if not isinstance(name, str) or not re.fullmatch(r'\{[\w,]*\}', name):
        return None
    body = name[1:-1]
    return set(body.split(',')) if body else set()


def check(acc, spec, scheme='s', eps='', enc='sparse', morph=False, letters='ab'):
    from gambatools.nfa_algorithms import nfa_to_dfa
    params = {'spec': spec, 'scheme': scheme, 'eps': eps, 'enc': enc, 'letters': letters}
    rp = {'fn': 'mc.props.c03:one', 'mode': 'plain', 'params': params}
    inst = {'nfa': spec, 'scheme': scheme, 'eps': eps, 'enc': enc, 'letters': letters}
    if morph:
        rp = {'fn': 'mc.props.c03:t_space', 'mode': 'plain', 'params': dict(acc.data.get('ctx', {}), upto=spec)}
        inst['presented_as'] = 'one live object rewritten in place after earlier conversions'
    Q, Sg, T, q0, F = spaces.nfa_parts(spec, scheme, eps, letters)
    if morph:
        ok, N = core.lib_call(acc, 'NFA()', inst, spaces.morph_nfa, spec, scheme, eps, enc, repro=rp)
    else:
        ok, N = core.lib_call(acc, 'NFA()', inst, spaces.build_nfa, spec, scheme, eps, enc, letters, repro=rp)
    if not ok:
        return
    A = fa.from_parts(Q, Sg, T, q0, F, eps)
    acc.states += 1
    ok, D = core.lib_call(acc, 'nfa_to_dfa', inst, nfa_to_dfa, N, repro=rp)
    acc.transitions += 1
    if not ok:
        return
    acc.evals += 1
    R = common.lib_dfa_to_ref(acc, 'nfa_to_dfa', inst, D, rp, total=True)
    if R is None:
        return
    if set(D.Sigma) != set(Sg):
        acc.viol('nfa_to_dfa', 'alphabet of the result differs from the alphabet of the NFA', inst, repro=rp, observed=sorted(D.Sigma), expected=Sg)
        return
    common.expect_equiv(acc, 'nfa_to_dfa', inst, R, A, rp, sigma=Sg)
    reach = fa.reachable(R)
    if reach != set(R.Q):
        acc.viol('nfa_to_dfa', 'result has unreachable states', inst, repro=rp, observed=sorted(set(R.Q) - reach))
    dec = decode_state_set(D.q0)
    if dec is None or not dec <= set(Q):
        acc.c['initial_state_name_not_decodable'] += 1
    else:
        exp = fa.eclose(A, {q0})
        acc.c['initial_state_name_decoded'] += 1
        if dec != exp:
            acc.viol('nfa_to_dfa', 'initial state does not stand for the epsilon closure of the NFA initial state', inst, repro=rp, observed=sorted(dec), expected=sorted(exp))
    Dref = fa.determinise(A, Sg)
    if len(Dref.subsets) >= 3:
        acc.nontrivial += 1
        if len(T) >= 3:
            acc.sample({'nfa': {'Q': Q, 'Sigma': Sg, 'transitions': ['{} -{}-> {}'.format(p, a or "''", q) for (p, a, q) in T], 'q0': q0, 'F': F}, 'dfa_states': sorted(D.Q), 'dfa_q0': D.q0, 'dfa_F': sorted(D.F)})
    acc.mx('max_dfa_states', len(D.Q))


def one(acc, spec, scheme='s', eps='', enc='sparse', letters='ab'):
    check(acc, spec, scheme, eps, enc, letters=letters)


def t_space(acc, space, shard, nshard, variants, morph=False, upto=None):
    def tup(x):
        return tuple(tup(y) for y in x) if isinstance(x, list) else x
    upto = tup(upto) if upto is not None else None
    space = tup(space)
    if morph:
        spaces._LIVE.clear()
        acc.data['ctx'] = {'space': space, 'shard': shard, 'nshard': nshard, 'variants': variants, 'morph': True}
    for idx, spec in spaces.shard(_nfa_space(space), shard, nshard):
        for v in variants:
            (scheme, eps, enc) = v[:3]
            check(acc, spec, scheme, eps, enc, morph=morph, letters=(v[3] if len(v) > 3 else 'ab'))
        if upto is not None and spec == upto:
            break
    acc.data.clear()


SPARSE = [('s', '', 'sparse')]
SPELL = [('s', e, c) for e in ('', '_', 'ε') for c in ('sparse', 'total')] + [('q', '', 'sparse'), ('x', '', 'empties'), ('t', '', 'sparse'), ('k', '_', 'sparse')]


def plan(tier, seed):
    tasks = []

    def nfa(space, variants, nshard, morph=False):
        for s in range(nshard):
            tasks.append(('plain', 'mc.props.c03:t_space', {'space': space, 'shard': s, 'nshard': nshard, 'variants': variants, 'morph': morph}))

    nfa(('nfa', 1, 0, None, False), SPELL, 1)
    nfa(('nfa', 2, 0, None, False), SPELL, 1)
    nfa(('nfa', 3, 0, 3, False), SPARSE, 1)
    nfa(('nfa', 1, 1, None, False), SPELL, 1)
    nfa(('nfa', 1, 2, None, False), SPELL, 1)
    nfa(('nfa', 2, 1, None, False), SPELL, 4)
    nfa(('chain', 4), SPARSE, 1)
    nfa(('chain', 5), SPARSE, 2)
    nfa(('chain', 6), SPARSE, 4)
    nfa(('rot', 5), SPARSE + [('t', '', 'sparse')], 1)
    nfa(('rot', 6), SPARSE + [('t', '', 'sparse')], 2)
    nfa(('rot', 7), SPARSE, 4)
    nfa(('nfa', 2, 1, None, False), SPARSE, 2, morph=True)
    nfa(('nfa', 2, 2, 3, False), SPARSE, 4, morph=True)
    nfa(('nfa', 3, 1, 3, False), [('t', '', 'sparse')], 4, morph=True)
    # wave 5: wide alphabets, further name schemes and epsilon spellings, other presentations of the transition dict
    EXTRA = [('s', 'ba', 'sparse'), ('u', '', 'sparse', 'gr'), ('g', '_', 'sparse'), ('K', 'ε', 'sparse'), ('f', '', 'sparse'), ('n', '', 'sparse', 'nf'), ('b', '_', 'sparse')]
    WIDE = [('s', '', 'sparse', 'w'), ('t', '_', 'total', 'w')]
    nfa(('nfa', 1, 2, None, False), EXTRA, 1)
    nfa(('nfa', 2, 1, None, False), EXTRA, 4)
    nfa(('nfa', 2, 2, 3, False), EXTRA[:3], 8)
    nfa(('nfa', 3, 1, 3, False), EXTRA[1:], 4)
    for k_ in (5, 6, 7):
        nfa(('nfa', 1, k_, None if k_ == 5 else 3, False), WIDE, 1)
    nfa(('nfa', 2, 5, 2, False), WIDE, 4)
    nfa(('nfa', 2, 6, 2, True), WIDE, 2)
    nfa(('nfa', 2, 7, 2, True), WIDE[:1], 2)
    nfa(('nfa', 3, 5, 2, True), WIDE[:1], 4)
    nfa(('star', 13), SPARSE + [('q', '_', 'total')], 4)     # wave 6: 13 states, the subsets {1,2} and {12}
    nfa(('star', 14), SPARSE, 4)
    base = list(tasks)
    tiny = lambda name, p: not p['morph'] and p['variants'] in (SPELL, SPARSE) and p['space'] in (('nfa', 1, 2, None, False), ('nfa', 2, 1, None, False), ('chain', 4))
    tasks += common.ordered_copies(base, tiny, orders=('canonical', 'reversed') + common.OBJ_ORDERS)
    pres = lambda name, p: not p['morph'] and p['space'] in (('nfa', 2, 1, None, False), ('chain', 5), ('rot', 5), ('nfa', 1, 5, None, False), ('nfa', 2, 5, 2, False))
    for kn in ({'dorder': 'aq'}, {'dorder': 'rev', 'shared': True}):
        tasks += common.knob_copies(base, pres, kn)
    if tier == 'quick':
        nfa(('nfa', 2, 2, None, False), SPARSE, 16)
        nfa(('nfa', 3, 1, 4, False), SPARSE, 16)
        nfa(('nfa', 3, 2, 3, True), SPARSE, 8)
        nfa(('nfa', 4, 1, 3, True), SPARSE, 8)
        bounds = 'NFA (1,k),(2,1),(n,0) all x eps spellings/encodings/name schemes; (2,2) all; (3,1,t<=4); (3,2,t<=3),(4,1,t<=3) with q0=s0,|F|=1; eps-chains n=4..6'
    else:
        nfa(('nfa', 2, 2, None, False), SPELL, 32)
        nfa(('nfa', 3, 1, 4, False), SPARSE + [('s', 'ε', 'total')], 32)
        nfa(('nfa', 3, 1, 5, True), SPARSE, 32)
        nfa(('nfa', 3, 2, 3, False), SPARSE, 32)
        nfa(('nfa', 3, 2, 4, True), SPARSE, 32)
        nfa(('nfa', 4, 1, 4, False), SPARSE, 64)
        bounds = 'NFA (1,k),(2,1),(2,2),(n,0) all x variants; (3,1,t<=4) (t<=5 restricted); (3,2,t<=3) (t<=4 restricted); (4,1,t<=4); eps-chains n=4..6'
    return {'tasks': tasks, 'bounds': {'spaces': bounds}, 'exhaustive': True,
            'rule': 'every labelled NFA inside the bounds, once per (automaton, epsilon spelling, delta encoding, name scheme); non-trivial = reference subset automaton has >= 3 states',
            'assumptions': ['language equality decided exactly by exploring the reachable pair-state space of reference determinisations', 'NFA delta total (defaultdict or full dict)',
                            'the initial-state clause is evaluated only when the state name is in the documented {a,b} set notation', 'rotation family (n = 5..7 states on a cycle, many distinct large subsets), names that are substrings of each other (q1, q10, q), small spaces also through one live NFA rewritten in place',
                            'wave 5: alphabets of 5-7 letters, names with non-decimal digit characters / outside latin-1 / generated-looking / keyword-like, epsilon named ba, transition dict filled letter-major or reversed with shared target sets, canonical / reversed / per-object set-order policies on the tiny spaces']}
