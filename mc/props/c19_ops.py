"""Operation table and per-kind helpers for C19 (purity, history / hash-seed / logging independence)."""
import collections

from mc import core, spaces
from mc.oracles import fa, rx, cfg, pda, tm
from mc.props import common

WORDS = ['', 'ab']
NS = [2]


# ---------------------------------------------------------------- kinds
def snap(kind, x):
    if kind == 'dfa':
        return ('dfa',) + common.snap_dfa(x)
    if kind == 'nfa':
        return ('nfa',) + common.snap_nfa(x)
    if kind == 'pda':
        return ('pda',) + pda.snap(x)
    if kind in ('cfg', 'cnf'):
        return ('cfg', cfg.from_lib(x, require_start=False), str(x.epsilon))
    if kind == 're':
        return ('re', rx.from_lib(x))
    if kind == 'tm':
        return ('tm', frozenset(x.Q), frozenset(x.Sigma), frozenset(x.Gamma), frozenset((k, tuple(v)) for k, v in x.delta.items()), x.q0, x.q_accept, x.q_reject, x.blank)
    raise ValueError(kind)


def clone(s):
    """An equal, independent object built from a snapshot."""
    k = s[0]
    if k == 'dfa':
        from gambatools.dfa import DFA
        _, Q, Sg, d, q0, F = s
        return DFA(set(Q), set(Sg), dict(d), q0, set(F))
    if k == 'nfa':
        from gambatools.nfa import NFA
        _, Q, Sg, rel, q0, F, e = s
        delta = collections.defaultdict(set)
        for (p, a, q) in rel:
            delta[p, a].add(q)
        return NFA(set(Q), set(Sg), delta, q0, set(F), e)
    if k == 'pda':
        from gambatools.pda import PDA
        _, Q, Sg, Gm, rel, q0, F, e = s
        delta = collections.defaultdict(set)
        for (p, a, u, q, v) in rel:
            delta[p, a, u].add((q, v))
        return PDA(set(Q), set(Sg), set(Gm), delta, q0, set(F), e)
    if k == 'cfg':
        return cfg.to_lib(s[1], s[2])
    if k == 're':
        return rx.to_lib(s[1])
    if k == 'tm':
        from gambatools.tm import TM
        _, Q, Sg, Gm, d, q0, qa, qr, b = s
        return TM(set(Q), set(Sg), set(Gm), {k_: v for k_, v in d}, q0, qa, qr, b)
    raise ValueError(k)


def signature(kind, x):
    """Semantic digest of a result: exact language for regular objects, bounded language for CFG/PDA,
    canonical value otherwise.  Raises Malformed-like exceptions for invalid objects."""
    if kind == 'dfa':
        return ('lang', fa.signature(fa.from_lib_dfa(x, total=True)))
    if kind == 'nfa':
        return ('lang', fa.signature(fa.from_lib_nfa(x)))
    if kind == 're':
        return ('lang', fa.signature(rx.glushkov(rx.from_lib(x))))
    if kind == 'cfg':
        g = cfg.from_lib(x, require_start=False)    # C19 does not ask for more than a language
        return ('lang<=4', tuple(sorted(cfg.language(g, 4)[0])))
    if kind == 'pda':
        P = pda.from_lib(x)
        return ('lang<=3', tuple(sorted(pda.language(P, 3))))
    if kind == 'value':
        return ('value', repr(core.jsonable(x)))
    if kind == 'cyk':
        return ('value', repr(sorted((k, sorted(map(str, v))) for k, v in x.items() if v)))
    if kind == 'run':
        return ('run', None)           # which witness is returned is left open by the property
    if kind == 'verdict':
        return ('verdict', x)
    if kind.startswith('text:'):
        return ('text-language', parse_back(kind[5:], x))
    raise ValueError(kind)


def parse_back(kind, text):
    try:
        if kind == 'dfa':
            from gambatools.dfa_algorithms import parse_dfa
            return signature('dfa', parse_dfa(text))
        if kind == 'nfa':
            from gambatools.nfa_algorithms import parse_nfa
            return signature('nfa', parse_nfa(text))
        if kind == 'pda':
            from gambatools.pda_algorithms import parse_pda
            return signature('pda', parse_pda(text))
        if kind == 'tm':
            from gambatools.tm_algorithms import parse_tm
            return ('tm', repr(core.jsonable(snap('tm', parse_tm(text)))))
        if kind == 're':
            from gambatools.regexp_simple_parser import parse_simple_regexp
            return signature('re', parse_simple_regexp(text))
        if kind == 'refull':
            from gambatools.regexp_parser import parse_regexp
            return signature('re', parse_regexp(text))
        if kind == 'cfg':
            from gambatools.cfg_algorithms import parse_simple_cfg
            return signature('cfg', parse_simple_cfg(text))
    except Exception as e:
        return ('unparseable', type(e).__name__)
    return ('text', text)


# ---------------------------------------------------------------- operations
def _m(mod):
    import importlib
    return importlib.import_module('gambatools.' + mod)


def verdict_of(f, *args):
    with core.captured_stdout() as buf:
        f(*args)
    out = buf.getvalue().strip().split('\n')
    return out[0].strip() == 'OK'


def _checker(mod, name, build_args):
    """A checker operation: arguments are texts derived (by the library's own printers / generators) from pool objects."""
    def run(*objs):
        f = getattr(_m(mod), name)
        return verdict_of(f, *build_args(*objs))
    return run


def _pd(D):
    return _m('dfa_algorithms').print_dfa(D)


OPS = []


def op(name, mod, argkinds, reskind, fn=None):
    OPS.append({'name': name, 'mod': mod, 'args': tuple(argkinds), 'res': reskind, 'fn': fn})


for _n, _r in (('dfa_accepts_word', 'value'), ('dfa_simulate_word', 'value')):
    op(_n, 'dfa_algorithms', ('dfa', 'word'), _r)
op('dfa_words_up_to_n', 'dfa_algorithms', ('dfa', 'n'), 'value')
for _n in ('dfa_minimize', 'dfa_quotient', 'dfa_hopfcroft', 'dfa_complement', 'dfa_no_extend', 'dfa_remove_unreachable_states', 'dfa_make_total'):
    op(_n, 'dfa_algorithms', ('dfa',), 'dfa')
for _n in ('dfa_reverse', 'dfa_no_prefix'):
    op(_n, 'dfa_algorithms', ('dfa',), 'nfa')
for _n in ('dfa_union', 'dfa_intersection', 'dfa_symmetric_difference'):
    op(_n, 'dfa_algorithms', ('dfa', 'dfa'), 'dfa')
for _n in ('dfa_isomorphic', 'dfa_isomorphic1'):
    op(_n, 'dfa_algorithms', ('dfa', 'dfa'), 'value')
op('print_dfa', 'dfa_algorithms', ('dfa',), 'text:dfa')
op('dfa_to_regexp', 'regexp_algorithms', ('dfa',), 're')
op('nfa_accepts_word', 'nfa_algorithms', ('nfa', 'word'), 'value')
op('nfa_simulate_word', 'nfa_algorithms', ('nfa', 'word'), 'run')
op('nfa_words_up_to_n', 'nfa_algorithms', ('nfa', 'n'), 'value')
op('nfa_to_dfa', 'nfa_algorithms', ('nfa',), 'dfa')
op('print_nfa', 'nfa_algorithms', ('nfa',), 'text:nfa')
op('nfa_repetition', 'nfa_algorithms', ('nfa',), 'nfa')
op('nfa_union', 'nfa_algorithms', ('nfa', 'nfa'), 'nfa')
op('nfa_concatenation', 'nfa_algorithms', ('nfa', 'nfa'), 'nfa')
op('epsilon_closure', 'nfa_algorithms', ('nfa', 'q0'), 'value')
op('regexp_accepts_word', 'regexp_algorithms', ('re', 'word'), 'value')
op('regexp_words_up_to_n', 'regexp_algorithms', ('re', 'n'), 'value')
op('regexp_simplify', 'regexp_algorithms', ('re',), 're')
op('regexp_to_nfa', 'regexp_algorithms', ('re',), 'nfa')
op('regexp_size', 'regexp_algorithms', ('re',), 'value')
op('regexp_symbols', 'regexp_algorithms', ('re',), 'run')
op('print_regexp', 'regexp', ('re',), 'text:refull')
op('print_regexp_simple', 'regexp', ('re',), 'text:re')
op('cfg_accepts_word', 'cfg_algorithms', ('cfg', 'word'), 'value')
op('cfg_words_up_to_n', 'cfg_algorithms', ('cfg', 'n'), 'value')
for _n in ('cfg_to_chomsky', 'cfg_add_new_start_variable', 'cfg_remove_epsilon_rules', 'cfg_eliminate_unit_rules', 'cfg_make_rules_of_length_two',
           'cfg_eliminate_terminals', 'cfg_remove_inproductive_variables', 'cfg_remove_useless_rules'):
    op(_n, 'cfg_algorithms', ('cfg',), 'cfg')
for _n in ('cfg_nullable_variables', 'cfg_productive_variables'):
    op(_n, 'cfg_algorithms', ('cfg',), 'value')
op('cfg_print_simple', 'cfg_algorithms', ('cfg',), 'text:cfg')
op('cfg_cyk_matrix', 'cfg_algorithms', ('cnf', 'word'), 'cyk')
op('cfg_derive_word', 'cfg_algorithms', ('cnf', 'genword'), 'run')
op('cfg_apply_chomsky', 'notebook_chomsky', ('cfg', 'phase', 'startvar'), 'cfg')
op('pda_accepts_word', 'pda_algorithms', ('pda', 'word'), 'value')
op('pda_words_up_to_n', 'pda_algorithms', ('pda', 'n'), 'value')
op('pda_simulate_word', 'pda_algorithms', ('pda', 'word'), 'run')
op('pda_to_push_pop', 'pda_algorithms', ('pda',), 'pda')
op('pda_to_accept_on_empty_stack', 'pda_algorithms', ('pda',), 'pda')
op('pda_to_cfg', 'pda_algorithms', ('pda',), 'cfg')
op('pda_is_push_pop', 'pda_algorithms', ('pda',), 'value')
op('print_pda', 'pda_algorithms', ('pda',), 'text:pda')
op('tm_accepts_word', 'tm_algorithms', ('tm', 'word'), 'value')
op('tm_simulate_word', 'tm_algorithms', ('tm', 'word'), 'value')
op('tm_words_up_to_n', 'tm_algorithms', ('tm', 'n'), 'value')
op('print_tm', 'tm_algorithms', ('tm',), 'text:tm')
for _k in ('dfa', 'nfa', 'pda', 'tm', 'cfg', 're'):
    op('generate_language[' + _k + ']', 'language_generator', (_k, 'n'), 'value', fn=lambda x, n: _m('language_generator').generate_language(x, n))
op('check_equal_languages', 'language_generator', ('dfa', 'nfa'), 'verdict', fn=lambda a, b: _m('language_generator').check_equal_languages(a, b, 4) == [])

# checkers: texts are produced by the library's own printers, so the right answer and a wrong answer are both exercised
op('check_dfa_complement[own]', 'notebook_dfa', ('dfa',), 'verdict', fn=_checker('notebook_dfa', 'check_dfa_complement', lambda D: (_pd(_m('dfa_algorithms').dfa_complement(D)), _pd(D))))
op('check_dfa_complement[wrong]', 'notebook_dfa', ('dfa',), 'verdict', fn=_checker('notebook_dfa', 'check_dfa_complement', lambda D: (_pd(D), _pd(D))))
op('check_dfa_minimal[own]', 'notebook_dfa', ('dfa',), 'verdict', fn=_checker('notebook_dfa', 'check_dfa_minimal', lambda D: (_pd(D), _pd(_m('dfa_algorithms').dfa_quotient(D)))))
op('check_dfa_minimal[self]', 'notebook_dfa', ('dfa',), 'verdict', fn=_checker('notebook_dfa', 'check_dfa_minimal', lambda D: (_pd(D), _pd(D))))
op('check_dfa_reverse[own]', 'notebook_dfa', ('dfa',), 'verdict', fn=_checker('notebook_dfa', 'check_dfa_reverse', lambda D: (_pd(D), _m('nfa_algorithms').print_nfa(_m('dfa_algorithms').dfa_reverse(D)))))
for _o in ('union', 'intersection', 'symmetric_difference'):
    op('check_dfa_%s[own]' % _o, 'notebook_dfa', ('dfa', 'dfa'), 'verdict',
       fn=(lambda o: _checker('notebook_dfa', 'check_dfa_' + o, lambda D1, D2: (_pd(getattr(_m('dfa_algorithms'), 'dfa_' + o)(D1, D2)), _pd(D1), _pd(D2))))(_o))
op('check_dfa_union[wrong]', 'notebook_dfa', ('dfa', 'dfa'), 'verdict',
   fn=_checker('notebook_dfa', 'check_dfa_union', lambda D1, D2: (_pd(_m('dfa_algorithms').dfa_intersection(D1, D2)), _pd(D1), _pd(D2))))
op('check_nfa2dfa[own]', 'notebook_nfa2dfa', ('nfa_',), 'verdict',
   fn=_checker('notebook_nfa2dfa', 'check_nfa2dfa', lambda N: (_m('nfa_algorithms').print_nfa(N), _pd(_m('nfa_algorithms').nfa_to_dfa(N)))))
op('check_dfa2regexp[own]', 'notebook', ('dfa',), 'verdict',
   fn=_checker('notebook', 'check_dfa2regexp', lambda D: (_pd(D), _m('regexp').print_regexp_simple(_m('regexp_algorithms').dfa_to_regexp(D)), 5)))
op('check_dfa_language_from_words', 'notebook', ('dfa', 'dfa'), 'verdict',
   fn=_checker('notebook', 'check_dfa_language_from_words', lambda D1, D2: (_pd(D1), ' '.join(w or 'ε' for w in sorted(_m('dfa_algorithms').dfa_words_up_to_n(D2, 4))), 4)))
op('cfg_check_chomsky[own]', 'notebook_chomsky', ('cfgs', 'phase'), 'verdict',
   fn=_checker('notebook_chomsky', 'cfg_check_chomsky', lambda G, p: (_m('cfg_algorithms').cfg_print_simple(G), _m('cfg_algorithms').cfg_print_simple(_m('notebook_chomsky').cfg_apply_chomsky(G, p, 'T')), p, 'T', 4)))
op('check_cyk_matrix[own]', 'notebook_cfg', ('cnf', 'genword'), 'verdict',
   fn=_checker('notebook_cfg', 'check_cyk_matrix', lambda G, w: (_m('cfg_algorithms').cfg_print_simple(G), w, _m('cfg_algorithms').cfg_print_cyk_matrix(_m('cfg_algorithms').cfg_cyk_matrix(G, w), len(w)))))
op('check_cfg_derivation[own]', 'notebook_cfg', ('cnf', 'genword'), 'verdict',
   fn=_checker('notebook_cfg', 'check_cfg_derivation', lambda G, w: (_m('cfg_algorithms').cfg_print_simple(G), ' => '.join(''.join(e) for e in _m('cfg_algorithms').cfg_derive_word(G, w, 'leftmost')), w, 'leftmost')))


# parsers on fixed texts (well-formed and ill-formed): a failed parse must not leave anything behind for the next one
TEXTS = {
    'cfg': [('bad', 'S -> aB'), ('eps', 'S -> aSb | ε'), ('us', 'S -> aSb | _'), ('decl', 'epsilon = e\nS -> aS | e')],
    'dfa': [('bad', 'initial s0\ns0 s1 a\ns0 s0 a'), ('ok', 'initial s0\nfinal s1\ns0 s1 a\ns1 s1 a')],
    'nfa': [('bad', 'initial s0 s1\ns0 s1 a'), ('eps', 'initial s0\nfinal s1\ns0 s1 ε\ns1 s1 a'), ('us', 'initial s0\nfinal s1\ns0 s1 _ a')],
    'pda': [('bad', 'initial s0\ns0 s1 a,x'), ('eps', 'initial s0\nfinal s1\ns0 s1 a,εx\ns1 s1 ε,xε'), ('us', 'initial s0\nfinal s0\ns0 s0 a,_x')],
    'tm': [('bad', 'initial s0\ns0 s1 a'), ('ok', 'initial s0\naccept qa\nreject qr\ns0 qa a_,R\ns0 s0 __,R')],
}
_PARSERS = {'cfg': ('cfg_algorithms', 'parse_simple_cfg'), 'dfa': ('dfa_algorithms', 'parse_dfa'), 'nfa': ('nfa_algorithms', 'parse_nfa'),
            'pda': ('pda_algorithms', 'parse_pda'), 'tm': ('tm_algorithms', 'parse_tm')}
for _k, _lst in TEXTS.items():
    for _tag, _txt in _lst:
        op('{}[{}]'.format(_PARSERS[_k][1], _tag), _PARSERS[_k][0], (), _k if _k != 'tm' else 'text:tm',
           fn=(lambda k, txt: (lambda: (getattr(_m(_PARSERS[k][0]), _PARSERS[k][1])(txt) if k != 'tm' else _m('tm_algorithms').print_tm(_m('tm_algorithms').parse_tm(txt)))))(_k, _txt))
op('check_cfg_accepts_rejects[eps]', 'notebook', (), 'verdict', fn=lambda: verdict_of(_m('notebook').check_cfg_accepts_rejects, 'S -> aSb | ε', 'ε ab aabb', 'a b ba'))


def get_fn(o):
    if o['fn'] is not None:
        return o['fn']
    name = o['name']
    if name == 'epsilon_closure':
        return lambda N, _q: _m('nfa_algorithms').epsilon_closure(N, N.q0)
    return getattr(_m(o['mod']), name)


OP_BY_NAME = {o['name']: o for o in OPS}
OBJ_KINDS = ('dfa', 'nfa', 'pda', 'cfg', 're', 'tm')


def base_kind(k):
    return {'cnf': 'cfg', 'cfgs': 'cfg', 'nfa_': 'nfa'}.get(k, k)


def extra_choices(kind, objs):
    """Choices for non-object arguments."""
    if kind == 'word':
        sg = sorted(getattr(objs[0], 'Sigma', None) or [])
        if not sg or not all(isinstance(a, str) and len(a) == 1 for a in sg):
            return WORDS if not hasattr(objs[0], 'Sigma') else ['']
        return ['', (sg[0] + sg[-1]), sg[0] * 12]      # the last one is longer than any structure of the small objects (and than half the closure limit of 20)
    if kind == 'n':
        return NS
    if kind == 'q0':
        return [None]
    if kind == 'phase':
        return [1, 3, 5]
    if kind == 'startvar':
        return ['T']
    if kind == 'genword':
        G = objs[0]
        lang = sorted(cfg.language(cfg.from_lib(G), 3)[0], key=lambda w: (len(w), w))
        return [w for w in lang if w][:2]
    raise ValueError(kind)


def qualifies(kind, x):
    """Extra requirements of some argument kinds (decided by oracle code)."""
    if kind == 'cnf':
        return cfg.is_cnf(cfg.from_lib(x)) is None and _simple(x)
    if kind == 'cfgs':
        return _simple(x) and cfg.normalise_simple(cfg.from_lib(x))
    if kind == 'nfa_':
        return x.epsilon != '' and all(str(q).isalnum() for q in x.Q)
    return True


def _simple(G):
    return all(len(v) == 1 and v.isupper() for v in G.V) and all(len(t) == 1 and t.islower() for t in G.Sigma)
