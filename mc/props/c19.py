"""C19 - pure operations keep their operands intact; results do not depend on earlier calls, on the string
hash seed or on the logging switch."""
import itertools
import json
import os
import subprocess
import sys

from mc import core, hist, spaces
from mc.oracles import fa, rx, cfg, pda, tm
from mc.props import common
from mc.props import c19_ops as O


PDA_LIMIT = 20


def _configure():
    """The PDA closure limit is a configuration; 1000 makes enumeration of stack-growing PDAs take minutes."""
    from gambatools.global_settings import GambaTools
    GambaTools.pda_epsilon_closure_max_iterations = PDA_LIMIT


if _configure not in hist.AFTER_RESTORE:
    hist.AFTER_RESTORE.append(_configure)


def tup(x):
    return tuple(tup(y) for y in x) if isinstance(x, list) else x


# ---------------------------------------------------------------- catalogs of argument objects (specs)
def catalog(kind, size):
    """Deterministic small catalog of specs for an object kind; size in ('s', 'm')."""
    if kind == 'dfa':
        # chains first (the hash-seed battery takes the first 30 instances): a refinement that stops a round early shows here
        out = [('dfa', ('dfa', 5, 1, (1, 2, 3, 4, 4), 0, fb)) for fb in (24, 16, 8, 20)] + [('dfa', ('dfa', 6, 1, (1, 2, 3, 4, 5, 5), 0, fb)) for fb in (48, 32)]
        out += [('dfa', ('dfa', 5, 2, (1, 0, 2, 0, 3, 0, 4, 0, 4, 4), 0, 16)), ('dfa', ('dfa', 4, 2, (1, 1, 2, 0, 3, 1, 3, 3), 0, 8))]
        out += [('dfa', s) for _, s in spaces.dfas(1, 1)] + [('dfa', s) for _, s in spaces.dfas(2, 1)]
        out += [('dfa', s) for i, s in spaces.dfas(2, 2) if size == 'm' or i % 4 == 1]
        out += [('dfa', s) for i, s in spaces.dfas(3, 2) if i % (97 if size == 'm' else 389) == 7]
        out += [('dfa', s) for i, s in spaces.dfas(4, 1) if i % (211 if size == 'm' else 997) == 3]
        out += [('dfa', s) for i, s in spaces.dfas(5, 1) if i % (3001 if size == 'm' else 9001) == 5]
        return out
    if kind == 'nfa':
        out = [('nfa', s, 's', '') for i, s in spaces.nfas(2, 1, 3) if i % (3 if size == 'm' else 9) == 1]
        out += [('nfa', s, 'q', '_') for i, s in spaces.nfas(2, 2, 2) if i % (5 if size == 'm' else 17) == 2]
        out += [('nfa', s, 's', 'ε') for i, s in spaces.nfas(3, 1, 3) if i % (41 if size == 'm' else 131) == 3]
        return out
    if kind == 'pda':
        out = [('pda', s) for i, s in pda.pdas(1, 1, 1, 3)]
        out += [('pda', s) for i, s in pda.pdas(2, 1, 1, 3) if i % (101 if size == 'm' else 397) == 5]
        out += [('pda', s, ('γ', 'Ω')) for i, s in pda.pdas(2, 1, 1, 2) if i % (23 if size == 'm' else 89) == 7]     # stack symbols outside latin-1
        out += [('pda', s, ('A', 'B', 'AB', '$')) for i, s in pda.multichar_pushpop_family()][:(7 if size == 'm' else 2)]
        return out
    if kind == 'cfg':
        out = [('cfg', s) for i, s in cfg.cfg2() if i % (211 if size == 'm' else 811) == 11]
        out += [('cfg', s) for i, s in cfg.cfg2(True) if i % (401 if size == 'm' else 1601) == 13]
        return out
    if kind == 'cnf':
        return [('cfg', s) for i, s in cfg.cnf3() if i % (61 if size == 'm' else 241) == 17]
    if kind == 're':
        return [('re', s) for i, s in rx.trees_up_to(6) if i % (13 if size == 'm' else 53) == 3] + [('re', s) for i, s in rx.trees_up_to(4, ('0', '1', 's0', 's1'))][::(1 if size == 'm' else 5)]
    if kind == 'tm':
        return [('tm', s) for i, s in tm.tms(1, 2)][::(1 if size == 'm' else 4)] + [('tm', s) for i, s in tm.tms(2, 2) if i % 1499 == 9]
    raise ValueError(kind)


def build(item, scheme=None):
    k = item[0]
    if k == 'dfa':
        return 'dfa', spaces.build_dfa(item[1], scheme or 's')
    if k == 'nfa':
        return 'nfa', spaces.build_nfa(item[1], scheme or item[2], item[3], 'sparse')
    if k == 'pda':
        return 'pda', pda.build(item[1], *( [item[2]] if len(item) > 2 else []))
    if k == 'cfg':
        return 'cfg', cfg.to_lib(item[1])
    if k == 're':
        return 're', rx.to_lib(item[1])
    if k == 'tm':
        return 'tm', tm.build(item[1])
    raise ValueError(k)


def catalog_for(argkind, size):
    b = O.base_kind(argkind)
    if argkind == 'cnf':
        return catalog('cnf', size)
    return catalog(b, size)


# ---------------------------------------------------------------- (a) + (d): arguments intact, logging independence
VERBOSE = [False]


def settings_of(G):
    return {k: v for k, v in vars(G).items() if not k.startswith('_') and isinstance(v, (int, float, str, bool, type(None)))}


def run_op(o, objs, extras):
    f = O.get_fn(o)
    if VERBOSE[0] and o['fn'] is None and o['name'] != 'epsilon_closure':
        import inspect
        if 'verbose' in inspect.signature(f).parameters:     # a diagnostic keyword: part of the logging switch
            g = f
            f = lambda *a: g(*a, verbose=True)
    args = []
    it_o = iter(objs)
    it_e = iter(extras)
    for k in o['args']:
        args.append(next(it_o) if O.base_kind(k) in O.OBJ_KINDS else next(it_e))
    if o['name'] == 'epsilon_closure':
        args[1] = None
    return f(*args)


def instances(o, size, pair_cap):
    """Argument tuples (items) for an operation."""
    objkinds = [k for k in o['args'] if O.base_kind(k) in O.OBJ_KINDS]
    cats = [catalog_for(k, size) for k in objkinds]
    if len(cats) == 0:
        yield ()
    elif len(cats) == 1:
        for it in cats[0]:
            yield (it,)
    else:
        n = 0
        a, b = cats
        step = max(1, (len(a) * len(b)) // pair_cap)
        for i, (x, y) in enumerate(itertools.product(a, b)):
            if i % step == 0:
                yield (x, y)


def check_op(acc, opname, size, pair_cap, shard, nshard):
    from gambatools.global_settings import GambaTools
    o = O.OP_BY_NAME[opname]
    _configure()
    objkinds = [k for k in o['args'] if O.base_kind(k) in O.OBJ_KINDS]
    extrakinds = [k for k in o['args'] if O.base_kind(k) not in O.OBJ_KINDS]
    n_inst = 0
    for idx, items in enumerate(instances(o, size, pair_cap)):
        if idx % nshard != shard:
            continue
        schemes = ['s', 'r'] if len(items) == 2 else [None]
        try:
            objs = [build(it, sch)[1] for it, sch in zip(items, schemes)]
        except Exception:
            continue
        if not all(O.qualifies(k, x) for k, x in zip(objkinds, objs)):
            continue
        if len(objs) == 2 and objkinds[0] == 'dfa' and objs[0].Sigma != objs[1].Sigma:
            continue
        if o['name'] in ('nfa_union', 'nfa_concatenation') and (not objs[0].Q.isdisjoint(objs[1].Q) or objs[0].epsilon != objs[1].epsilon):
            continue
        extra_lists = [O.extra_choices(k, objs) for k in extrakinds]
        for extras in itertools.product(*extra_lists):
            rp = {'fn': 'mc.props.c19:one_op', 'mode': 'plain', 'params': {'opname': opname, 'items': items, 'extras': list(extras)}}
            inst = {'op': opname, 'args': [describe(k, x) for k, x in zip(objkinds, objs)], 'extras': list(extras)}
            n_inst += 1
            acc.states += 1
            sigs = []
            for logging in (False, True, 'shared-names'):
                spaces.KNOBS['intern'] = (logging == 'shared-names')
                try:
                    objs = [build(it, sch)[1] for it, sch in zip(items, schemes)]
                finally:
                    spaces.KNOBS['intern'] = False
                before = [O.snap(O.base_kind(k), x) for k, x in zip(objkinds, objs)]
                GambaTools.enable_logging = (logging is True)
                VERBOSE[0] = (logging is True)
                settings = settings_of(GambaTools)
                try:
                    if opname.endswith('[bad]'):
                        try:                      # an ill-formed text: raising is the expected behaviour
                            r = run_op(o, objs, extras)
                            ok = True
                        except Exception:
                            ok, r = False, None
                    else:
                        ok, r = core.lib_call(acc, opname, dict(inst, logging=logging), run_op, o, objs, extras, repro=rp)
                finally:
                    now = settings_of(GambaTools)
                    if now != settings:
                        # the user's configuration is an implicit argument of every later call
                        acc.viol(opname, 'the call changed a global setting (GambaTools)', dict(inst, logging=logging), repro=rp,
                                 observed={k: now.get(k) for k in now if now.get(k) != settings.get(k)}, expected={k: settings.get(k) for k in now if now.get(k) != settings.get(k)})
                        for k_, v_ in settings.items():
                            setattr(GambaTools, k_, v_)
                    GambaTools.enable_logging = False
                    VERBOSE[0] = False
                acc.transitions += 1
                if not ok:
                    sigs.append(None)
                    continue
                acc.evals += 1
                try:
                    after = [O.snap(O.base_kind(k), x) for k, x in zip(objkinds, objs)]
                except Exception as e:
                    after = 'unreadable: ' + core.describe_exc(e)
                if after != before:
                    acc.viol(opname, 'argument was modified', dict(inst, logging=logging), repro=rp, observed=diff_snap(before, after))
                try:
                    sigs.append(O.signature(o['res'], r))
                except Exception as e:
                    acc.viol(opname, 'result is not a valid object of its kind', dict(inst, logging=logging), repro=rp, observed=core.describe_exc(e))
                    sigs.append(None)
            acc.validated += 1
            if sigs[0] is not None and sigs[1] is not None and sigs[0] != sigs[1]:
                acc.viol(opname, 'result depends on the logging switch', inst, repro=rp, observed={'logging_off': str(sigs[0])[:200], 'logging_on': str(sigs[1])[:200]})
            if sigs[0] is not None and sigs[2] is not None and sigs[0] != sigs[2]:
                acc.viol(opname, 'result differs between equal arguments (names as distinct str objects / as one shared object)', inst, repro=rp, observed={'distinct_objects': str(sigs[0])[:200], 'shared_objects': str(sigs[2])[:200]})
    acc.c['instances[' + opname + ']'] += n_inst
    if n_inst:
        acc.nontrivial += 1


def diff_snap(before, after):
    if isinstance(after, str):
        return after
    out = []
    for i, (b, a) in enumerate(zip(before, after)):
        if a != b:
            out.append({'argument': i, 'before': str(b)[:300], 'after': str(a)[:300]})
    return out


def describe(kind, x):
    try:
        return {'kind': kind, 'text': str(x)[:400]}
    except Exception:
        return {'kind': kind}


def one_op(acc, opname, items, extras):
    o = O.OP_BY_NAME[opname]
    items = tup(items)
    objkinds = [k for k in o['args'] if O.base_kind(k) in O.OBJ_KINDS]
    schemes = ['s', 'r'] if len(items) == 2 else [None]
    from gambatools.global_settings import GambaTools
    sigs = []
    for logging in (False, True, 'shared-names'):
        spaces.KNOBS['intern'] = (logging == 'shared-names')
        try:
            objs = [build(it, sch)[1] for it, sch in zip(items, schemes)]
        finally:
            spaces.KNOBS['intern'] = False
        before = [O.snap(O.base_kind(k), x) for k, x in zip(objkinds, objs)]
        GambaTools.enable_logging = (logging is True)
        VERBOSE[0] = (logging is True)
        try:
            ok, r = core.lib_call(acc, opname, {'op': opname, 'logging': logging}, run_op, o, objs, extras)
        finally:
            GambaTools.enable_logging = False
            VERBOSE[0] = False
        if not ok:
            sigs.append(None)
            continue
        after = [O.snap(O.base_kind(k), x) for k, x in zip(objkinds, objs)]
        if after != before:
            acc.viol(opname, 'argument was modified', {'op': opname, 'logging': logging}, observed=diff_snap(before, after))
        try:
            sigs.append(O.signature(o['res'], r))
        except Exception as e:
            acc.viol(opname, 'result is not a valid object of its kind', {'op': opname}, observed=core.describe_exc(e))
            sigs.append(None)
    if sigs[0] is not None and sigs[2] is not None and sigs[0] != sigs[2]:
        acc.viol(opname, 'result differs between equal arguments (names as distinct str objects / as one shared object)', {'op': opname}, observed=[str(s)[:200] for s in (sigs[0], sigs[2])])
    if sigs[0] is not None and sigs[1] is not None and sigs[0] != sigs[1]:
        acc.viol(opname, 'result depends on the logging switch', {'op': opname}, observed=[str(s)[:200] for s in sigs])


# ---------------------------------------------------------------- (b) histories
POOL_ITEMS = [
    ('dfa', ('dfa', 2, 2, (1, 0, 1, 1), 0, 2), 's'),
    ('dfa', ('dfa', 3, 2, (1, 2, 2, 0, 2, 2), 0, 5), 'r'),
    ('nfa', ('nfa', 2, 2, ((0, 0, 1), (0, 2, 1), (1, 1, 0)), 0, 2), 'q', '_'),
    ('nfa', ('nfa', 2, 2, ((0, 1, 0), (0, 0, 1), (1, 2, 0)), 0, 1), 's', '_'),
    ('pda', ('pda', 2, 1, 1, ((0, 0, 1, 0, 0), (0, 1, 1, 1, 1), (1, 0, 0, 1, 1)), 0, 2)),
    ('cfg', ('cfg', ('A', 'S'), ('a', 'b'), (('S', ('a', 'S', 'b')), ('S', ('A',)), ('A', ()), ('A', ('b', 'A'))), 'S')),
    ('cfg', ('cfg', ('A', 'B', 'S'), ('a', 'b'), (('S', ('A', 'B')), ('S', ()), ('A', ('a',)), ('B', ('A', 'B')), ('B', ('b',))), 'S')),
    ('re', ('.', ('*', ('+', ('s', 'a'), ('1',))), ('s', 'b'))),
    ('re', ('1',)),
    ('re', ('+', ('s', '1'), ('.', ('s', '0'), ('s', '1')))),
    ('tm', ('tm', 1, 2, ((0, 0, 'R'), (1, 1, 'L')), 0)),
]


def build_pool_item(it):
    k = it[0]
    if k == 'dfa':
        return 'dfa', spaces.build_dfa(it[1], it[2])
    if k == 'nfa':
        return 'nfa', spaces.build_nfa(it[1], it[2], it[3], 'sparse')
    return build((k, it[1]))


def history_check(acc, opnames, depth, pool_items=None, part=0, nparts=1):
    pool_items = POOL_ITEMS if pool_items is None else pool_items
    ops = [O.OP_BY_NAME[n] for n in opnames]
    fresh_cache = {}

    def make_pool():
        return [build_pool_item(it) for it in pool_items]

    def enabled(pool):
        evs = []
        for o in ops:
            objkinds = [k for k in o['args'] if O.base_kind(k) in O.OBJ_KINDS]
            extrakinds = [k for k in o['args'] if O.base_kind(k) not in O.OBJ_KINDS]
            cands = [[i for i, (pk, x) in enumerate(pool) if pk == O.base_kind(k) and safe_qual(k, x)] for k in objkinds]
            for idxs in itertools.product(*cands):
                if len(idxs) == 2 and idxs[0] == idxs[1]:
                    continue
                objs = [pool[i][1] for i in idxs]
                if len(objs) == 2 and objkinds[0] == 'dfa' and objs[0].Sigma != objs[1].Sigma:
                    continue
                if o['name'] in ('nfa_union', 'nfa_concatenation') and (not objs[0].Q.isdisjoint(objs[1].Q) or objs[0].epsilon != objs[1].epsilon):
                    continue
                try:
                    extra_lists = [O.extra_choices(k, objs) for k in extrakinds]
                except Exception:
                    continue
                for extras in itertools.product(*extra_lists):
                    evs.append((o['name'], tuple(idxs), tuple(extras)))
        return evs

    def apply(pool, ev):
        name, idxs, extras = ev
        o = O.OP_BY_NAME[name]
        r = run_op(o, [pool[i][1] for i in idxs], extras)
        return (o['res'], r)

    def canon(pool):
        return tuple(O.snap(k, x) for (k, x) in pool if k in O.OBJ_KINDS)

    def on_step(h, ev, before, pool, r, failed):
        name, idxs, extras = ev
        o = O.OP_BY_NAME[name]
        rp = {'fn': 'mc.props.c19:one_history', 'mode': 'plain', 'params': {'history': h + [ev]}}
        inst = {'history': [list(e) for e in h], 'event': list(ev)}
        # fresh-state behaviour of the same operation on equal arguments
        objkinds = [k for k in o['args'] if O.base_kind(k) in O.OBJ_KINDS]
        live_objs = [x for (k, x) in pool if k in O.OBJ_KINDS]
        argsnaps = tuple(before[[i for i, (k, _) in enumerate(pool) if k in O.OBJ_KINDS].index(j)] for j in idxs)
        key = (name, argsnaps, extras)
        if key not in fresh_cache:
            saved = hist.hidden_restore_point()
            hist.pristine()
            try:
                fr = run_op(o, [O.clone(s) for s in argsnaps], extras)
                fresh_cache[key] = ('ok', O.signature(o['res'], fr))
            except BaseException as e:
                if isinstance(e, (core.WallClock, KeyboardInterrupt, SystemExit)):
                    raise
                fresh_cache[key] = ('raise', type(e).__name__)
            hist.hidden_restore(saved)
        fresh = fresh_cache[key]
        if failed is not None:
            if fresh[0] == 'raise':
                return 'expand'     # fails in the fresh state as well: not a history effect - but the failed call is part of the history
            acc.viol(name, 'raises after earlier calls but not in a fresh state', inst, repro=rp, error=core.describe_exc(failed))
            return False
        acc.evals += 1
        try:
            after = canon(pool)
        except Exception as e:
            after = None
        if after != before:
            acc.viol(name, 'an argument or another live object was modified', inst, repro=rp, observed=[i for i, (a, b) in enumerate(zip(before, after or ()))if a != b])
            return False
        try:
            sig = O.signature(o['res'], r[1])
        except Exception as e:
            acc.viol(name, 'result is not a valid object of its kind', inst, repro=rp, observed=core.describe_exc(e))
            return False
        acc.validated += 1
        if fresh[0] == 'ok' and sig != fresh[1] and sig[0] != 'run':
            acc.viol(name, 'result differs from the result of the same call in a fresh state', inst, repro=rp, observed=str(sig)[:300], expected=str(fresh[1])[:300])
            return False
        return r[0] in O.OBJ_KINDS or True

    def apply_and_filter(pool, ev):
        return apply(pool, ev)

    states, transitions, completed = hist.bfs(make_pool, enabled, apply_and_filter, canon, depth, on_step, part=part, nparts=nparts)
    acc.states += states
    acc.transitions += transitions
    acc.c['history_states'] += states
    acc.c['history_transitions'] += transitions
    acc.mx('history_depth_completed', completed)
    hist.pristine()


def small(kind, x):
    """Size bound on operands of a history step (results of earlier steps can be large: PDA->CFG grammars,
    DFA->regexp expressions); stated in the evidence."""
    if kind in ('dfa', 'nfa'):
        return len(x.Q) <= 6
    if kind == 'pda':
        return len(x.Q) <= 4
    if kind == 'cfg':
        return len(x.R) <= 12 and len(x.V) <= 6
    if kind == 're':
        return rx.nodes(rx.from_lib(x)) <= 12
    return True


def safe_qual(k, x):
    try:
        return small(O.base_kind(k), x) and O.qualifies(k, x)
    except Exception:
        return False


def one_history(acc, history):
    """Replays one history without the explorer; the last event is compared with its fresh-state result."""
    hist.pristine()
    pool = [build_pool_item(it) for it in POOL_ITEMS]
    for k, ev in enumerate(history):
        name, idxs, extras = ev[0], tuple(ev[1]), tuple(ev[2])
        o = O.OP_BY_NAME[name]
        before = tuple(O.snap(kk, x) for (kk, x) in pool if kk in O.OBJ_KINDS)
        ok, r = core.lib_call(acc, name, {'history': history[:k], 'event': ev}, run_op, o, [pool[i][1] for i in idxs], extras)
        if not ok:
            break
        after = tuple(O.snap(kk, x) for (kk, x) in pool if kk in O.OBJ_KINDS)
        if after != before:
            acc.viol(name, 'an argument or another live object was modified', {'history': history[:k], 'event': ev})
        if k == len(history) - 1:
            sig = O.signature(o['res'], r)
            objidx = [i for i, (kk, _) in enumerate(pool) if kk in O.OBJ_KINDS]
            argsnaps = [before[objidx.index(j)] for j in idxs]
            hist.pristine()
            fr = O.signature(o['res'], run_op(o, [O.clone(s) for s in argsnaps], extras))
            if fr != sig and sig[0] != 'run':
                acc.viol(name, 'result differs from the result of the same call in a fresh state', {'history': history}, observed=str(sig)[:300], expected=str(fr)[:300])
        pool.append((o['res'], r))
    hist.pristine()


def t_history(acc, opnames, depth, part=0, nparts=1):
    history_check(acc, opnames, depth, part=part, nparts=nparts)
    acc.nontrivial += 1
    acc.sample({'history_pool': [str(it)[:120] for it in POOL_ITEMS], 'operations': len(opnames), 'depth': depth})


# ---------------------------------------------------------------- (c) hash seeds: real fresh processes
def battery():
    """Executed in a fresh plain subprocess: canonical digests of every operation on a fixed set of instances."""
    from mc import load
    load.setup('plain')
    sys.stdout = open(os.devnull, 'w')
    _configure()
    out = battery_digests()
    sys.__stdout__.write(json.dumps(out))
    sys.__stdout__.flush()


def near_pairs():
    """Pairs of 4-state, two-letter DFAs that differ in ONE transition target or ONE accepting bit (wave 7): a pairing / matching
    routine meets a conflict late there, and whether it notices can depend on the order in which pending pairs are taken."""
    bases = [('dfa', 4, 2, (1, 2, 1, 1, 3, 2, 3, 3), 0, 8), ('dfa', 4, 2, (1, 2, 3, 0, 0, 3, 2, 1), 0, 9), ('dfa', 4, 2, (1, 1, 2, 2, 3, 3, 0, 0), 1, 4)]
    out = []
    for (_, n, k, d, q0, fb) in bases:
        for pos in range(len(d)):
            for tgt in range(n):
                if tgt != d[pos] and (pos + tgt) % 2 == 0:
                    out.append((('dfa', ('dfa', n, k, d, q0, fb)), ('dfa', ('dfa', n, k, d[:pos] + (tgt,) + d[pos + 1:], q0, fb))))
        for bit in range(n):
            out.append((('dfa', ('dfa', n, k, d, q0, fb)), ('dfa', ('dfa', n, k, d, q0, fb ^ (1 << bit)))))
    return out


def battery_digests(first=30, first_pairs=30):
    out = {}
    for o in O.OPS:
        objkinds = [k for k in o['args'] if O.base_kind(k) in O.OBJ_KINDS]
        extrakinds = [k for k in o['args'] if O.base_kind(k) not in O.OBJ_KINDS]
        n = 0
        cases = list(enumerate(instances(o, 's', 60)))
        cap = first
        if objkinds == ['dfa', 'dfa']:
            near = near_pairs()
            cases = [(10000 + i, it) for i, it in enumerate(near)] + cases
            cap = len(near) + first_pairs
        for idx, items in cases:
            if n >= cap:
                break
            schemes = ['s', 'r'] if len(items) == 2 else [None]
            try:
                objs = [build(it, sch)[1] for it, sch in zip(items, schemes)]
                if not all(O.qualifies(k, x) for k, x in zip(objkinds, objs)):
                    continue
                if len(objs) == 2 and objkinds[0] == 'dfa' and objs[0].Sigma != objs[1].Sigma:
                    continue
                if o['name'] in ('nfa_union', 'nfa_concatenation') and (not objs[0].Q.isdisjoint(objs[1].Q) or objs[0].epsilon != objs[1].epsilon):
                    continue
                extra_lists = [O.extra_choices(k, objs) for k in extrakinds]
            except Exception:
                continue
            n += 1
            for extras in itertools.product(*extra_lists):
                key = '{}|{}|{}'.format(o['name'], idx, list(extras))
                try:
                    objs = [build(it, sch)[1] for it, sch in zip(items, schemes)]
                    r = run_op(o, objs, extras)
                    out[key] = json.dumps(core.jsonable(O.signature(o['res'], r)), sort_keys=True, ensure_ascii=False)
                except Exception as e:
                    out[key] = 'raises ' + type(e).__name__
    return out


def battery_under_order(order, first):
    """Executed in a fresh INSTRUMENTED subprocess (hash seed 0): the battery under one set-order policy of the scheduler."""
    from mc import load
    load.setup('instr')
    from mc import instr
    sys.stdout = open(os.devnull, 'w')
    _configure()
    kw = {}
    if order.startswith('obj'):
        kw = {'objbit': int(order[3]), 'objflip': 1 if order.endswith('f') else 0}
        core.NEWCALL = instr.S.newcall
    instr.S.reset(boost=(), budget=10 ** 15, native=False, record=False, reverse=(order == 'reversed'), **kw)
    try:
        out = battery_digests(first, first)
    finally:
        instr.S.reset()
        core.NEWCALL = None
    sys.__stdout__.write(json.dumps(out))
    sys.__stdout__.flush()


def t_order(acc, order, first=30):
    """(e) The same battery in a fresh instrumented process under one set-order policy (see mc.props.common:t_ordered): a global
    canonical or reversed order, or per-object orders.  The digests are compared with those of the hash-seed processes in finish()."""
    env = dict(os.environ, PYTHONHASHSEED='0')
    root = os.path.dirname(os.path.dirname(os.path.dirname(os.path.abspath(__file__))))
    p = subprocess.run([sys.executable, '-B', '-c', 'from mc.props import c19; c19.battery_under_order({!r}, {})'.format(order, int(first))], cwd=root, env=env, capture_output=True, text=True, timeout=3600)
    if p.returncode != 0:
        raise core.MachineryError('battery under set-order policy {} failed:\n{}'.format(order, p.stderr[-2000:]))
    acc.data['order:' + order] = json.loads(p.stdout)
    acc.transitions += len(acc.data['order:' + order])
    acc.c['set_order_policies_run_on_the_battery'] += 1


def t_seed(acc, hashseed):
    env = dict(os.environ, PYTHONHASHSEED=str(hashseed))
    root = os.path.dirname(os.path.dirname(os.path.dirname(os.path.abspath(__file__))))
    p = subprocess.run([sys.executable, '-B', '-c', 'from mc.props import c19; c19.battery()'], cwd=root, env=env, capture_output=True, text=True, timeout=1200)
    if p.returncode != 0:
        raise core.MachineryError('hash-seed battery failed under seed {}:\n{}'.format(hashseed, p.stderr[-2000:]))
    acc.data['seed:%d' % hashseed] = json.loads(p.stdout)
    acc.transitions += len(acc.data['seed:%d' % hashseed])
    acc.c['hash_seed_processes'] += 1


def finish(acc, spec):
    seeds = sorted(k for k in acc.data if k.startswith('seed:'))
    if not seeds:
        return
    base = acc.data[seeds[0]]
    for s in seeds[1:]:
        other = acc.data[s]
        for key in base:
            acc.evals += 1
            acc.validated += 1
            if other.get(key) != base[key]:
                opname = key.split('|')[0]
                acc.viol(opname, 'result depends on PYTHONHASHSEED', {'battery_key': key, 'seeds': [seeds[0], s]},
                         repro={'fn': 'mc.props.c19:replay_seed', 'mode': 'plain', 'params': {'key': key, 'seeds': [int(seeds[0][5:]), int(s[5:])]}},
                         observed={seeds[0]: base[key][:300], s: str(other.get(key))[:300]})
    for okey in sorted(k for k in acc.data if k.startswith('order:')):
        other = acc.data[okey]
        for key, val in other.items():          # the order layer may run a prefix of the battery
            if key not in base:
                continue
            acc.evals += 1
            acc.validated += 1
            acc.c['battery_entries_compared_across_set_orders'] += 1
            if val != base[key]:
                opname = key.split('|')[0]
                acc.viol(opname, 'result depends on the iteration order of sets', {'battery_key': key, 'set_order_policy': okey[6:], 'compared_with': 'fresh process, ' + seeds[0]},
                         repro={'fn': 'mc.props.c19:replay_order', 'mode': 'plain', 'params': {'key': key, 'order': okey[6:], 'seed': int(seeds[0][5:])}},
                         observed={okey: val[:300], seeds[0]: base[key][:300]})
    acc.c['battery_entries'] = len(base)
    acc.data = {}


def replay_order(acc, key, order, seed):
    a = core.Acc()
    t_seed(a, seed)
    b = core.Acc()
    t_order(b, order)
    x, y = a.data['seed:%d' % seed].get(key), b.data['order:' + order].get(key)
    if x != y:
        acc.viol(key.split('|')[0], 'result depends on the iteration order of sets', {'battery_key': key, 'set_order_policy': order}, observed={'order:' + order: str(y)[:300], 'seed:%d' % seed: str(x)[:300]})


def replay_seed(acc, key, seeds):
    res = {}
    for s in seeds:
        a = core.Acc()
        t_seed(a, s)
        res[s] = a.data['seed:%d' % s].get(key)
    if len(set(res.values())) > 1:
        acc.viol(key.split('|')[0], 'result depends on PYTHONHASHSEED', {'battery_key': key}, observed={str(k): str(v)[:300] for k, v in res.items()})


# ---------------------------------------------------------------- plan
CORE_OPS = ['dfa_minimize', 'dfa_quotient', 'dfa_hopfcroft', 'dfa_complement', 'dfa_reverse', 'dfa_union', 'dfa_intersection', 'nfa_to_dfa', 'nfa_repetition', 'nfa_union',
            'nfa_concatenation', 'dfa_to_regexp', 'regexp_to_nfa', 'dfa_remove_unreachable_states', 'dfa_no_prefix', 'nfa_accepts_word', 'dfa_isomorphic1']


def plan(tier, seed):
    tasks = []
    q = tier == 'quick'
    P = 'mc.props.c19:'
    for o in O.OPS:
        ns = 2 if len([k for k in o['args'] if O.base_kind(k) in O.OBJ_KINDS]) == 2 or not q else 1
        for s in range(ns):
            tasks.append(('plain', P + 'check_op', {'opname': o['name'], 'size': 's' if q else 'm', 'pair_cap': 300 if q else 3000, 'shard': s, 'nshard': ns}))
    names = [o['name'] for o in O.OPS]
    for part in range(4):
        tasks.append(('plain', P + 't_history', {'opnames': names, 'depth': 2, 'part': part, 'nparts': 4}))
    for part in range(12):
        tasks.append(('plain', P + 't_history', {'opnames': CORE_OPS, 'depth': 3, 'part': part, 'nparts': 12}))
    sub = []            # tasks that wait for a subprocess: scheduled first
    for hs in (range(3) if q else range(16)):
        sub.append(('plain', P + 't_seed', {'hashseed': hs}))
    for od in (('canonical', 'reversed', 'obj0', 'obj1f') if q else ('canonical', 'reversed') + common.OBJ_ORDERS):
        sub.append(('plain', P + 't_order', {'order': od, 'first': 8 if q else 30}))
    tasks = sub + tasks
    return {'tasks': tasks,
            'bounds': {'operations': len(O.OPS), 'argument_catalogs': 'small' if q else 'medium', 'histories': 'all call sequences of depth <= 2 over all operations, depth <= 3 over {} core operations, on a pool of 11 objects; operands of a step limited to <= 6 states (PDA 4), <= 12 rules / 6 variables, <= 12 expression nodes'.format(len(CORE_OPS)),
                       'hash_seeds': 3 if q else 16, 'set_order_policies_on_the_battery': 4 if q else 12, 'logging': 'every instance with logging off and on'},
            'exhaustive': False,
            'explanation': 'layer (b) is exhaustive: every call sequence up to the stated depth over the stated pool is executed (explicit-state search with the hidden library state in the state key). Layers (a) and (c) run over argument CATALOGS that are fixed arithmetic progressions through the spaces of mc/spaces.py and over a finite list of hash seeds; they are complete for those catalogs only. Every case was executed on the real code from the working tree.',
            'rule': '(a) every operation x every instance of its argument catalog: canonical argument snapshot before = after, result valid, same result with logging on; (b) breadth-first search over call sequences (results join the pool): pool unchanged, result = result of the same call on equal arguments in a pristine state; (c) a fixed battery (incl. near-miss pairs of 4-state DFAs) executed in fresh processes under each PYTHONHASHSEED, digests must agree; (e) a prefix of the same battery executed under set-order policies of the scheduler (global canonical / reversed order, per-object orders), digests must agree with those of the fresh processes. states = instances + canonical history states',
            'assumptions': ['generality over set orders rests on the scheduler runs of C04, C06, C08, C15, C20; here a finite set of hash seeds is enumerated',
                            'which witness a simulator returns is left open (not compared)', 'pristine state = module globals / function defaults / class attributes as right after import', 'pda_epsilon_closure_max_iterations is set to {} for this check'.format(PDA_LIMIT)]}
