"""C01 - DFA / NFA acceptance equals the textbook definition; epsilon closure = epsilon reachability."""
import itertools

from mc import core, spaces
from mc.oracles import fa

NSHARD = 32


def subsets(Q):
    for m in range(len(Q) + 1):
        for c in itertools.combinations(Q, m):
            yield set(c)


def check_dfa(acc, spec, L, scheme='s', morph=False, letters='ab'):
    from gambatools.dfa_algorithms import dfa_accepts_word
    rp = {'fn': 'mc.props.c01:one_dfa', 'mode': 'plain', 'params': {'spec': spec, 'L': L, 'scheme': scheme, 'letters': letters}}
    if morph:
        rp = {'fn': 'mc.props.c01:t_morph', 'mode': 'plain', 'params': dict(acc.data.get('ctx', {}), upto=spec)}
    Q, Sg, delta, q0, F = spaces.dfa_parts(spec, scheme, letters)
    if morph:
        ok, D = core.lib_call(acc, 'DFA()', spec, spaces.morph_dfa, spec, scheme, repro=rp)
    else:
        ok, D = core.lib_call(acc, 'DFA()', spec, spaces.build_dfa, spec, scheme, letters, repro=rp)
    if not ok:
        return
    A = fa.from_dfa_parts(Q, Sg, delta, q0, F)
    acc.states += 1
    nacc = 0
    nw = 0
    for w in spaces.words(Sg, L):
        ok, got = core.lib_call(acc, 'dfa_accepts_word', {'dfa': spec, 'word': w}, dfa_accepts_word, D, w, repro=rp)
        acc.transitions += 1
        if not ok:
            continue
        exp = fa.accepts(A, w)
        acc.evals += 1
        acc.validated += 1
        nw += 1
        nacc += exp
        if got is not exp:
            acc.viol('dfa_accepts_word', 'verdict differs from existence of an accepting run' + (' (object rewritten in place after earlier queries)' if morph else ''), {'dfa': spec, 'scheme': scheme, 'word': w}, repro=rp, observed=got, expected=exp)
    if 0 < nacc < nw:
        acc.nontrivial += 1
        if spec[1] >= 2:
            acc.sample({'kind': 'DFA', 'Q': Q, 'Sigma': Sg, 'delta': ['{},{}->{}'.format(q, a, r) for (q, a), r in delta.items()], 'q0': q0, 'F': F, 'words_up_to': L, 'accepted_words': nacc, 'tested_words': nw})


def check_nfa(acc, spec, L, scheme='s', eps='', enc='sparse', closures=True, morph=False, letters='ab'):
    from gambatools.nfa_algorithms import nfa_accepts_word, epsilon_closure
    params = {'spec': spec, 'L': L, 'scheme': scheme, 'eps': eps, 'enc': enc, 'closures': closures, 'letters': letters}
    rp = {'fn': 'mc.props.c01:one_nfa', 'mode': 'plain', 'params': params}
    inst = {'nfa': spec, 'scheme': scheme, 'eps': eps, 'enc': enc}
    if morph:
        rp = {'fn': 'mc.props.c01:t_morph', 'mode': 'plain', 'params': dict(acc.data.get('ctx', {}), upto=spec)}
        inst['presented_as'] = 'one live object rewritten in place after earlier queries'
    Q, Sg, T, q0, F = spaces.nfa_parts(spec, scheme, eps, letters)
    if morph:
        ok, N = core.lib_call(acc, 'NFA()', inst, spaces.morph_nfa, spec, scheme, eps, enc, repro=rp)
    else:
        ok, N = core.lib_call(acc, 'NFA()', inst, spaces.build_nfa, spec, scheme, eps, enc, letters, repro=rp)
    if not ok:
        return
    A = fa.from_parts(Q, Sg, T, q0, F, eps)
    acc.states += 1
    nacc = 0
    nw = 0
    for w in spaces.words(Sg, L):
        ok, got = core.lib_call(acc, 'nfa_accepts_word', dict(inst, word=w), nfa_accepts_word, N, w, repro=rp)
        acc.transitions += 1
        if not ok:
            continue
        exp = fa.accepts(A, w)
        acc.evals += 1
        acc.validated += 1
        nw += 1
        nacc += exp
        if got is not exp:
            acc.viol('nfa_accepts_word', 'verdict differs from existence of an accepting run', dict(inst, word=w), repro=rp, observed=got, expected=exp)
    if 0 < nacc < nw:
        acc.nontrivial += 1
    if closures:
        has_eps = any(a == eps for (_, a, _) in T)
        acc.c['nfa_with_eps_moves'] += has_eps
        for q in Q:
            ok, got = core.lib_call(acc, 'epsilon_closure', dict(inst, arg=q), epsilon_closure, N, q, repro=rp)
            acc.transitions += 1
            if ok:
                acc.evals += 1
                exp = fa.eclose(A, {q})
                if not isinstance(got, (set, frozenset)) or set(got) != exp:
                    acc.viol('epsilon_closure', 'closure of a state differs from epsilon reachability', dict(inst, arg=q), repro=rp, observed=got, expected=exp)
        if len(Q) <= 4:
            for S in subsets(Q):
                exp = fa.eclose(A, S)
                for name, f in (('epsilon_closure', lambda S=S: epsilon_closure(N, set(S))), ('NFA.E', lambda S=S: N.E(set(S)))):
                    before = set(S)
                    ok, got = core.lib_call(acc, name, dict(inst, arg=sorted(S)), f, repro=rp)
                    acc.transitions += 1
                    if ok:
                        acc.evals += 1
                        if not isinstance(got, (set, frozenset)) or set(got) != exp:
                            acc.viol(name, 'closure of a state set differs from epsilon reachability', dict(inst, arg=sorted(S)), repro=rp, observed=got, expected=exp)
    if 0 < nacc < nw and len(T) >= 3:
        acc.sample({'kind': 'NFA', 'Q': Q, 'Sigma': Sg, 'transitions': ['{} -{}-> {}'.format(p, a or "''", q) for (p, a, q) in T], 'q0': q0, 'F': F, 'epsilon': eps, 'delta_encoding': enc, 'words_up_to': L, 'accepted_words': nacc, 'tested_words': nw})


def one_dfa(acc, spec, L, scheme='s', letters='ab'):
    check_dfa(acc, spec, L, scheme, letters=letters)


def one_nfa(acc, spec, L, scheme='s', eps='', enc='sparse', closures=True, letters='ab'):
    check_nfa(acc, spec, L, scheme, eps, enc, closures, letters=letters)


def t_morph(acc, kind, space, L, shard, nshard, upto=None, enc='sparse'):
    """One live object rewritten in place for every instance of the shard (in enumeration order).  With `upto` the
    walk stops after that instance: this is how a counterexample of this layer is replayed."""
    def tup(x):
        return tuple(tup(y) for y in x) if isinstance(x, list) else x
    upto = tup(upto) if upto is not None else None
    space = tup(space)
    spaces._LIVE.clear()
    acc.data['ctx'] = {'kind': kind, 'space': space, 'L': L, 'shard': shard, 'nshard': nshard, 'enc': enc}
    if kind == 'dfa':
        for idx in range(shard, spaces.dfa_size(*space), nshard):
            spec = spaces.dfa_spec(space[0], space[1], idx)
            check_dfa(acc, spec, L, morph=True)
            if spec == upto:
                break
    else:
        for idx, spec in spaces.shard(_nfa_space(space), shard, nshard):
            check_nfa(acc, spec, L, enc=enc, closures=True, morph=True)
            if spec == upto:
                break
    acc.data.clear()
    acc.c['instances_presented_by_rewriting_one_live_object'] += acc.states


# ------------------------------------------------------------------ tasks
def t_dfa(acc, n, k, L, shard, nshard, scheme='s', letters='ab', stride=1, offset=0):
    for idx in range(offset + shard * stride, spaces.dfa_size(n, k), nshard * stride):
        check_dfa(acc, spaces.dfa_spec(n, k, idx), L, scheme, letters=letters)


def t_deep(acc, n):
    """Thin deep family: automata whose runs / closures are far longer than any fixed iteration guard or the
    interpreter's recursion limit (n states on one path)."""
    from collections import defaultdict
    from gambatools.dfa import DFA
    from gambatools.nfa import NFA
    from gambatools.dfa_algorithms import dfa_accepts_word
    from gambatools.nfa_algorithms import nfa_accepts_word, epsilon_closure
    rp = {'fn': 'mc.props.c01:t_deep', 'mode': 'plain', 'params': {'n': n}}
    Q = ['d%d' % i for i in range(n)]
    # (1) DFA: one path of n states, the last one absorbing and accepting
    D = DFA(set(Q), {'a'}, {(Q[i], 'a'): Q[min(i + 1, n - 1)] for i in range(n)}, Q[0], {Q[-1]})
    acc.states += 1
    for m, exp in ((n - 2, False), (n - 1, True), (n + 5, True)):
        inst = {'dfa': 'path of %d states, last accepting' % n, 'word': 'a^%d' % m}
        ok, got = core.lib_call(acc, 'dfa_accepts_word', inst, dfa_accepts_word, D, 'a' * m, repro=rp)
        acc.transitions += 1
        if ok:
            acc.evals += 1
            acc.validated += 1
            if got is not exp:
                acc.viol('dfa_accepts_word', 'verdict differs from existence of an accepting run', inst, repro=rp, observed=got, expected=exp)
    # (2) NFA: epsilon chain of n states; (3) epsilon fan: d0 -e-> m_i -e-> l_i (2 * (n // 2) + 1 states in the closure)
    chain = [(Q[i], '', Q[i + 1]) for i in range(n - 1)] + [(Q[-1], 'a', Q[-1])]
    h = n // 2
    M = ['m%d' % i for i in range(h)]
    Lf = ['l%d' % i for i in range(h)]
    fan = [('d0', '', m) for m in M] + [(m, '', l) for m, l in zip(M, Lf)] + [(Lf[-1], 'a', 'd0')]
    for name, QQ, T, F in (('epsilon chain of %d states' % n, Q, chain, [Q[-1]]), ('epsilon fan with %d leaves' % h, ['d0'] + M + Lf, fan, [Lf[-1]]), ('epsilon fan with %d leaves' % h, ['d0'] + M + Lf, fan, [Lf[0]])):
        delta = defaultdict(set)
        for (p_, a, q) in T:
            delta[p_, a].add(q)
        inst = {'nfa': name, 'F': F}
        ok, N = core.lib_call(acc, 'NFA()', inst, NFA, set(QQ), {'a'}, delta, 'd0', set(F), '', repro=rp)
        if not ok:
            continue
        A = fa.from_parts(QQ, ['a'], T, 'd0', F, '')
        acc.states += 1
        acc.nontrivial += 1
        for w in ('', 'a', 'aa'):
            ok, got = core.lib_call(acc, 'nfa_accepts_word', dict(inst, word=w), nfa_accepts_word, N, w, repro=rp)
            acc.transitions += 1
            if ok:
                acc.evals += 1
                acc.validated += 1
                exp = fa.accepts(A, w)
                if got is not exp:
                    acc.viol('nfa_accepts_word', 'verdict differs from existence of an accepting run', dict(inst, word=w), repro=rp, observed=got, expected=exp)
        for q in ('d0', QQ[len(QQ) // 2]):
            ok, got = core.lib_call(acc, 'epsilon_closure', dict(inst, arg=q), epsilon_closure, N, q, repro=rp)
            acc.transitions += 1
            if ok:
                acc.evals += 1
                exp = fa.eclose(A, {q})
                if not isinstance(got, (set, frozenset)) or set(got) != exp:
                    acc.viol('epsilon_closure', 'closure of a state differs from epsilon reachability', dict(inst, arg=q), repro=rp, observed='%d states' % len(got), expected='%d states' % len(exp))
        acc.mx('max_closure_size', len(fa.eclose(A, {'d0'})))


def _nfa_space(name):
    kind = name[0]
    if kind == 'nfa':
        _, n, k, t, restrict = name
        if restrict:
            return spaces.nfas(n, k, t, q0s=[0], fbits=[1 << i for i in range(n)])
        return spaces.nfas(n, k, t)
    if kind == 'chain':
        return spaces.nfa_chains(name[1])
    if kind == 'rot':
        return spaces.nfa_rotations(name[1])
    if kind == 'star':
        return spaces.star13_family(name[1])
    raise ValueError(name)


def block_of(space):
    if space[0] == 'nfa':
        n = space[1]
        return n if space[4] else n * 2 ** n
    return 1


def t_nfa(acc, space, L, shard, nshard, variants, closures=True):
    def tup(x):
        return tuple(tup(y) for y in x) if isinstance(x, list) else x
    space = tup(space)
    for idx, spec in spaces.shard_blocks(_nfa_space(space), shard, nshard, block_of(space)):
        for v in variants:
            (scheme, eps, enc) = v[:3]
            check_nfa(acc, spec, L, scheme, eps, enc, closures, letters=(v[3] if len(v) > 3 else 'ab'))


def t_collide(acc, n, t, L, shard, nshard):
    """The same transition table read twice: once with 'b' as a letter (alphabet {a,b}, epsilon ''), once with 'b'
    as the epsilon symbol (alphabet {a}); both orders, same process."""
    for idx, s1 in spaces.shard_blocks(spaces.nfas(n, 1, t), shard, nshard, n * 2 ** n):
        s2 = ('nfa', n, 2) + s1[3:]
        if idx % 2:
            check_nfa(acc, s2, L, 's', '', 'sparse', closures=True)
            check_nfa(acc, s1, L, 's', 'b', 'sparse', closures=True)
        else:
            check_nfa(acc, s1, L, 's', 'b', 'sparse', closures=True)
            check_nfa(acc, s2, L, 's', '', 'sparse', closures=True)


ALL_VARIANTS = [('s', e, c) for e in ('', '_', 'ε') for c in ('sparse', 'empties', 'total')]
SPARSE = [('s', '', 'sparse')]


def plan(tier, seed):
    tasks = []

    def dfa(n, k, L, nshard=1, **kw):
        for s in range(nshard):
            tasks.append(('plain', 'mc.props.c01:t_dfa', dict({'n': n, 'k': k, 'L': L, 'shard': s, 'nshard': nshard}, **kw)))

    def nfa(space, L, variants, nshard, closures=True):
        for s in range(nshard):
            tasks.append(('plain', 'mc.props.c01:t_nfa', {'space': space, 'L': L, 'shard': s, 'nshard': nshard, 'variants': variants, 'closures': closures}))

    bounds = {}
    tasks.append(('plain', 'mc.props.c01:t_morph', {'kind': 'dfa', 'space': [2, 2], 'L': 4, 'shard': 0, 'nshard': 1}))
    tasks.append(('plain', 'mc.props.c01:t_morph', {'kind': 'dfa', 'space': [3, 1], 'L': 4, 'shard': 0, 'nshard': 1}))
    for s_ in range(4):
        tasks.append(('plain', 'mc.props.c01:t_morph', {'kind': 'nfa', 'space': ('nfa', 2, 1, None, False), 'L': 3, 'shard': s_, 'nshard': 4}))
        tasks.append(('plain', 'mc.props.c01:t_morph', {'kind': 'nfa', 'space': ('nfa', 2, 2, 3, False), 'L': 3, 'shard': s_, 'nshard': 4}))
        tasks.append(('plain', 'mc.props.c01:t_morph', {'kind': 'nfa', 'space': ('nfa', 3, 1, 3, False), 'L': 3, 'shard': s_, 'nshard': 4}))
        # a delta defined on all of Q x (Sigma + eps): the key set never changes, every other rewrite changes the target sets in place
        tasks.append(('plain', 'mc.props.c01:t_morph', {'kind': 'nfa', 'space': ('nfa', 2, 1, None, False), 'L': 3, 'shard': s_, 'nshard': 4, 'enc': 'total'}))
        tasks.append(('plain', 'mc.props.c01:t_morph', {'kind': 'nfa', 'space': ('nfa', 3, 1, 3, False), 'L': 3, 'shard': s_, 'nshard': 4, 'enc': 'total'}))
    for (n, k) in ((1, 0), (2, 0), (1, 1), (1, 2), (2, 1), (2, 2)):
        dfa(n, k, 8)
    dfa(3, 1, 6)
    dfa(3, 2, 4, 8)
    nfa(('nfa', 1, 1, None, False), 5, ALL_VARIANTS, 1)
    nfa(('nfa', 1, 2, None, False), 4, ALL_VARIANTS, 1)
    nfa(('nfa', 2, 1, None, False), 5, ALL_VARIANTS, 4)
    nfa(('nfa', 2, 0, None, False), 2, ALL_VARIANTS, 1)
    nfa(('chain', 4), 3, SPARSE, 2)
    nfa(('chain', 5), 3, SPARSE, 4)
    nfa(('chain', 6), 3, SPARSE, 8)
    for s_ in range(4):
        tasks.append(('plain', 'mc.props.c01:t_collide', {'n': 2, 't': 3, 'L': 3, 'shard': s_, 'nshard': 4}))
    nfa(('nfa', 2, 1, None, False), 4, [('d', '', 'sparse', '01'), ('t', '', 'sparse'), ('k', '_', 'sparse')], 2)
    nfa(('nfa', 2, 2, 3, False), 3, [('d', '', 'sparse', '01')], 4)
    nfa(('nfa', 3, 1, 3, False), 4, [('d', '', 'sparse', '01')], 4)
    nfa(('rot', 5), 6, SPARSE, 1, closures=False)
    nfa(('rot', 6), 7, SPARSE, 2, closures=False)
    # wave 5: further presentations of the small spaces
    tasks.insert(0, ('plain', 'mc.props.c01:t_deep', {'n': 1300 if tier == 'quick' else 2600}))
    EXTRA = [('s', 'ba', 'sparse'), ('s', 'eps', 'sparse', 'eps'), ('u', '', 'sparse', 'gr'), ('g', '_', 'sparse'), ('K', 'ε', 'sparse'), ('n', '', 'sparse', 'nf'), ('b', '_', 'sparse')]
    nfa(('nfa', 1, 2, None, False), 4, EXTRA, 1)
    nfa(('nfa', 2, 1, None, False), 4, EXTRA, 4)
    nfa(('nfa', 2, 2, 3, False), 3, EXTRA[:3], 8)
    nfa(('nfa', 3, 1, 3, False), 3, EXTRA[2:], 4)
    nfa(('star', 13), 2, SPARSE, 2, closures=False)
    nfa(('nfa', 1, 5, None, False), 2, [('s', '', 'sparse', 'w')], 1)
    nfa(('nfa', 1, 7, None, False), 1, [('s', '', 'sparse', 'w')], 1)
    nfa(('nfa', 2, 5, 2, False), 2, [('s', '', 'sparse', 'w'), ('s', '_', 'total', 'w')], 4)
    nfa(('nfa', 2, 6, 2, True), 2, [('s', '', 'sparse', 'w')], 2)
    for k_ in (5, 6, 7):
        dfa(1, k_, 2, 1, letters='w')
    dfa(2, 5, 2, 4, letters='w')
    dfa(2, 6, 2, 4, letters='w', stride=8, offset=seed % 8)
    dfa(2, 2, 4, 1, scheme='u', letters='gr')
    dfa(2, 2, 4, 1, scheme='g')
    dfa(3, 1, 4, 1, scheme='u')
    if tier == 'quick':
        nfa(('nfa', 2, 2, 4, False), 4, ALL_VARIANTS, 8)
        nfa(('nfa', 2, 2, None, False), 3, SPARSE, 16)
        nfa(('nfa', 3, 1, 4, False), 5, SPARSE, 16)
        nfa(('nfa', 3, 2, 3, True), 3, SPARSE, 8)
        nfa(('nfa', 4, 1, 3, True), 5, SPARSE, 8)
        bounds = {'DFA': 'n<=2,k<=2 L<=8; (3,1) L<=6; (3,2) L<=4', 'NFA': '(1,k),(2,1),(2,0) all x 3 eps spellings x 3 delta encodings; (2,2,t<=4) all variants; (2,2,all) L<=3; (3,1,t<=4); (3,2,t<=3) and (4,1,t<=3) with q0=s0,|F|=1; eps-chains n=4..6'}
    else:
        dfa(4, 1, 6, 4)
        nfa(('nfa', 2, 2, None, False), 4, ALL_VARIANTS, 32)
        nfa(('nfa', 3, 1, 4, False), 5, [('s', '', 'sparse'), ('s', 'ε', 'total')], 32)
        nfa(('nfa', 3, 2, 3, False), 4, SPARSE, 32)
        nfa(('nfa', 4, 1, 4, False), 5, SPARSE, 64, closures=True)
        bounds = {'DFA': 'n<=2,k<=2 L<=8; (3,1) L<=6; (3,2) L<=4; (4,1) L<=6', 'NFA': '(1,k),(2,1),(2,2) all x 3 eps x 3 encodings L<=4/5; (3,1,t<=4) 2 variants; (3,2,t<=3); (4,1,t<=4); eps-chains n=4..6'}
    from mc.props import common
    small = lambda name, p: name.endswith('t_nfa') and (p['space'][0] == 'chain' or (p['space'][0] == 'nfa' and p['space'][1] <= 2 and p['space'][2] == 1) or (p['space'][0] == 'nfa' and p['space'][1] == 3 and p['space'][2] == 1 and p['space'][3] == 4 and p['shard'] % 4 == 0))
    base = list(tasks)
    tasks = tasks + common.ordered_copies(base, small)
    tiny = lambda name, p: (name.endswith('t_nfa') and p['variants'] == SPARSE and p['space'] in (('chain', 4), ('nfa', 2, 1, None, False))) or (name.endswith('t_dfa') and (p['n'], p['k']) in ((2, 2), (1, 5)) and 'scheme' not in p)
    tasks = tasks + common.ordered_copies(base, tiny, orders=common.OBJ_ORDERS)
    pres = lambda name, p: (name.endswith('t_nfa') and p['space'] in (('nfa', 2, 1, None, False), ('nfa', 2, 2, 3, False), ('nfa', 3, 1, 3, False), ('chain', 5)) and p['variants'][0][:3] in (('s', '', 'sparse'), ('d', '', 'sparse'))) or (name.endswith('t_dfa') and (p['n'], p['k']) in ((2, 2), (3, 2), (2, 5)))
    for kn in ({'dorder': 'aq'}, {'dorder': 'rev', 'shared': True}):
        tasks = tasks + common.knob_copies(base, pres, kn)
    return {
        'tasks': tasks,
        'rule': 'every labelled DFA/NFA inside the bounds x every word up to L; an NFA counts once per (automaton, epsilon spelling, delta encoding); non-trivial = accepts some but not all tested words',
        'bounds': bounds,
        'exhaustive': True,
        'assumptions': ['NFA delta is a total function into P(Q): defaultdict or a dict defined on all of Q x (Sigma+eps) (doc/main.tex)',
                        'single-character input symbols; epsilon spelled \'\', _, ε, or a multi-character name made of input letters (ba, eps)',
                        'wave 5: alphabets of 5-7 letters (CPython orders such a set and its copy differently), names with non-decimal digit characters / outside latin-1 / generated-looking (start, start2) / keywords in another case, transition dicts filled letter-major and reversed, equal target sets shared as one object, per-object set-order policies on the tiny spaces, one path / epsilon chain / epsilon fan of 1300 (thorough: 2600) states',
                        'small spaces are presented a second time through ONE live object whose fields are rewritten in place between instances (detects per-object caches)',
                        'the variants (all q0, all F) of one transition structure run back to back in one worker; the same table is also read with b as a letter and with b as the epsilon symbol',
                        'the small NFA spaces and the epsilon chains are executed a second and third time under the canonical and the reversed global set order (instrumented), names include digit / substring / keyword-like schemes'],
    }
