"""C08 - Chomsky conversion: CNF result with the same language, input untouched; each phase preserves the
language and establishes its postcondition; introduced variables are fresh."""
from mc import core, spaces
from mc.oracles import cfg
from mc.props import common


def tup(x):
    return tuple(tup(y) for y in x) if isinstance(x, list) else x


def post_start(before, after):
    S0 = after[4]
    if S0 in before[1]:
        return 'new start variable {} is an old variable'.format(S0)
    if any(S0 in rhs for _, rhs in after[3]):
        return 'new start variable occurs on a right-hand side'
    if (S0, (before[4],)) not in after[3]:
        return 'rule {} -> {} missing'.format(S0, before[4])
    if set(after[1]) != set(before[1]) | {S0}:
        return 'variable set is not old V + new start'
    return None


def post_no_eps(g):
    for l, rhs in g[3]:
        if not rhs and l != g[4]:
            return 'epsilon rule for {}'.format(l)
    return None


def post_no_unit(g):
    Vs = set(g[1])
    for l, rhs in g[3]:
        if len(rhs) == 1 and rhs[0] in Vs:
            return 'unit rule {} -> {}'.format(l, rhs[0])
    return None


def post_len2(g):
    for l, rhs in g[3]:
        if len(rhs) > 2:
            return 'rule with more than two symbols: {} -> {}'.format(l, ''.join(rhs))
    return None


def fresh_problem(phase, src, g):
    """Are the variables introduced by this phase new and pairwise distinct?  Decided structurally:
    phase 1 adds exactly one variable; phases 2, 3 add none; in phases 4 and 5 an old variable never gains
    a rule (it would, if a 'fresh' name collided with it) and every introduced variable owns exactly one
    rule (it would own two, if two introduced variables collided).  Returns a message or None."""
    new = set(g[1]) - set(src[1])
    if phase == 1:
        return None if len(new) == 1 else 'phase 1 must introduce exactly one variable, got {}'.format(sorted(new))
    if phase in (2, 3):
        return None if not new else 'phase {} introduced variables {}'.format(phase, sorted(new))
    cnt_before, cnt_after = {}, {}
    for l, _ in src[3]:
        cnt_before[l] = cnt_before.get(l, 0) + 1
    for l, _ in g[3]:
        cnt_after[l] = cnt_after.get(l, 0) + 1
    for v in src[1]:
        if cnt_after.get(v, 0) > cnt_before.get(v, 0):
            return 'old variable {} gained a rule: an introduced variable collides with it'.format(v)
    for v in new:
        if cnt_after.get(v, 0) != 1:
            return 'introduced variable {} owns {} rules: introduced variables collide'.format(v, cnt_after.get(v, 0))
    return None


POST = {1: [], 2: [post_no_eps], 3: [post_no_eps, post_no_unit], 4: [post_no_eps, post_no_unit, post_len2],
        5: [post_no_eps, post_no_unit, post_len2, cfg.is_cnf]}


def judge(acc, name, inst, rp, G_in, before, out, lang, L, phase=None, prev=None, cumulative=True):
    """Common clauses for one conversion step.  Returns the spec of the result or None."""
    acc.evals += 1
    try:
        now = cfg.from_lib(G_in)
    except cfg.Malformed as e:
        now = str(e)
    if now != before:
        acc.viol(name, 'input grammar was modified', inst, repro=rp, observed=now if isinstance(now, str) else cfg.show(now))
    try:
        g = cfg.from_lib(out)
    except cfg.Malformed as e:
        acc.viol(name, 'result is not a valid grammar', inst, repro=rp, observed=str(e))
        return None
    except Exception as e:
        acc.viol(name, 'result is not a valid grammar', inst, repro=rp, observed=core.describe_exc(e))
        return None
    if set(g[2]) != set(before[2]) and not set(g[2]) <= set(before[2]):
        acc.viol(name, 'terminal alphabet grew', inst, repro=rp, observed=g[2])
    got, _ = cfg.language(g, L)
    acc.validated += 1
    if got != lang:
        d = sorted(got ^ lang, key=lambda w: (len(w), w))[0]
        acc.viol(name, 'language changed', inst, repro=rp, observed={'word': d, 'in_result': d in got, 'in_original': d in lang, 'result': cfg.show(g)[:300]})
        return g
    if phase is not None:
        src = prev if prev is not None else before
        if not set(src[1]) <= set(g[1]):
            acc.viol(name, 'a variable disappeared', inst, repro=rp, observed=sorted(set(src[1]) - set(g[1])))
        if prev is not None or phase == 1:
            msg = fresh_problem(phase, src, g)
            if msg:
                acc.viol(name, 'introduced variables are not all new and pairwise distinct', inst, repro=rp,
                         observed={'reason': msg, 'new_variables': sorted(set(g[1]) - set(src[1])), 'result': cfg.show(g)[:300]})
        if phase == 1 or (cumulative and phase >= 1 and prev is None):
            pass
        checks = POST[phase] if cumulative else POST[phase][-1:]
        for c in checks:
            msg = c(g)
            if msg:
                acc.viol(name, 'postcondition of phase {} violated'.format(phase), inst, repro=rp, observed={'reason': msg, 'result': cfg.show(g)[:300]})
                break
    return g


PHASE_FUNCS = ['cfg_add_new_start_variable', 'cfg_remove_epsilon_rules', 'cfg_eliminate_unit_rules', 'cfg_make_rules_of_length_two', 'cfg_eliminate_terminals']


def check(acc, spec, L, mode='plain', depth=0, only=None, epsilon='ε'):
    import gambatools.cfg_algorithms as ca
    from gambatools.notebook_chomsky import cfg_apply_chomsky
    inst0 = {'grammar': cfg.show(spec)}
    if any(len(rhs) >= 5 for _, rhs in spec[3]):
        L = max(L, 5)
    lang, _ = cfg.language(spec, L)
    acc.states += 1
    _, V, Sg, rules, S = spec
    if any(len(r) == 0 for _, r in rules) and any(len(r) == 1 and r[0] in V for _, r in rules):
        acc.nontrivial += 1
        if len(rules) >= 4:
            acc.sample({'grammar': cfg.show(spec), 'language_up_to_%d' % L: sorted(lang, key=lambda w: (len(w), w))[:6]})
    if mode == 'plain':
        rp = {'fn': 'mc.props.c08:one', 'mode': 'plain', 'params': {'spec': spec, 'L': L, 'epsilon': epsilon}}
        # whole conversion
        G = cfg.to_lib(spec, epsilon)
        before = cfg.from_lib(G)
        ok, out = core.lib_call(acc, 'cfg_to_chomsky', inst0, ca.cfg_to_chomsky, G, repro=rp)
        acc.transitions += 1
        if ok:
            g = judge(acc, 'cfg_to_chomsky', inst0, rp, G, before, out, lang, L)
            if g is not None:
                msg = cfg.is_cnf(g)
                if msg:
                    acc.viol('cfg_to_chomsky', 'result is not in Chomsky normal form', inst0, repro=rp, observed={'reason': msg, 'result': cfg.show(g)[:300]})
        # phase chain through the public non-in-place functions
        cur = cfg.to_lib(spec, epsilon)
        prev = spec
        for p, fname in enumerate(PHASE_FUNCS, 1):
            b = cfg.from_lib(cur)
            ok, out = core.lib_call(acc, fname, dict(inst0, phase=p, input=cfg.show(prev)[:300]), getattr(ca, fname), cur, repro=rp)
            acc.transitions += 1
            if not ok:
                break
            g = judge(acc, fname, dict(inst0, phase=p, input=cfg.show(prev)[:300]), rp, cur, b, out, lang, L, phase=p, prev=prev)
            if g is None:
                break
            if p == 1:
                msg = post_start(prev, g)
                if msg:
                    acc.viol(fname, 'postcondition of phase 1 violated', dict(inst0, phase=1), repro=rp, observed={'reason': msg, 'result': cfg.show(g)[:300]})
            cur, prev = out, g
        # the exercise path
        for start in ('T', 'S'):
            g1 = None
            for p in range(1, 6):
                G = cfg.to_lib(spec, epsilon)
                before = cfg.from_lib(G)
                inst = dict(inst0, phase=p, start_variable=start)
                ok, out = core.lib_call(acc, 'cfg_apply_chomsky', inst, cfg_apply_chomsky, G, p, start, repro=rp)
                acc.transitions += 1
                if not ok:
                    continue
                g = judge(acc, 'cfg_apply_chomsky', inst, rp, G, before, out, lang, L, phase=p, prev=None)
                if g is not None and p == 1:
                    msg = post_start(spec, g)
                    if msg:
                        acc.viol('cfg_apply_chomsky', 'postcondition of phase 1 violated', inst, repro=rp, observed={'reason': msg, 'result': cfg.show(g)[:300]})
    else:
        def execute(boost, native=False):
            rp = {'fn': 'mc.props.c08:one_sched', 'mode': 'instr', 'params': {'spec': spec, 'L': L, 'boost': list(boost), 'native': native, 'epsilon': epsilon}}
            inst = dict(inst0, schedule='native' if native else {'boost': list(boost)})
            G = cfg.to_lib(spec, epsilon)
            before = cfg.from_lib(G)
            st, out = common.sched_call(acc, 'cfg_to_chomsky', inst, ca.cfg_to_chomsky, G, boost=boost, native=native, rp=rp)
            if st == 'ok':
                g = judge(acc, 'cfg_to_chomsky', inst, rp, G, before, out, lang, L)
                if g is not None:
                    msg = cfg.is_cnf(g)
                    if msg:
                        acc.viol('cfg_to_chomsky', 'result is not in Chomsky normal form', inst, repro=rp, observed={'reason': msg, 'result': cfg.show(g)[:300]})
        if only is not None:
            execute(tup(only[0]), only[1])
            return
        execute((), native=True)
        acc.transitions += 1
        common.explore(acc, execute, depth)


def one(acc, spec, L, epsilon='ε'):
    check(acc, tup(spec), L, 'plain', epsilon=epsilon)


def one_sched(acc, spec, L, boost=(), native=False, epsilon='ε'):
    check(acc, tup(spec), L, 'instr', 0, only=(boost, native), epsilon=epsilon)


def t_space(acc, space, L, shard, nshard, stride=1, offset=0, mode='plain', depth=0):
    if space == 'big':
        for v in (24, 25, 26, 27, 28):
            check(acc, cfg.cfg_big(v), L, mode, depth)
        return
    if space == 'biglong':
        for (v, m) in ((25, 13), (26, 12), (26, 14), (27, 16), (28, 14)):
            check(acc, cfg.cfg_big_long(v, m), L, mode, depth)
        return
    gen = cfg.cfg3_units() if space == 'cfg3u' else (cfg.cfg4_units() if space == 'cfg4u' else cfg.cfg2(space == 'cfg2+'))
    for idx, spec in gen:
        if idx % stride == offset % stride and (idx // stride) % nshard == shard:
            check(acc, spec, L, mode, depth)
            if mode == 'plain' and space.startswith('cfg2'):
                if (idx // stride) % 8 == 1:
                    check(acc, cfg.rename(spec, None, cfg.EPS_TERMINAL), L, mode, depth, epsilon='e')     # the character ε as a terminal
                if (idx // stride) % 8 == 2:
                    check(acc, cfg.rename(spec, {'A': 'X', 'S': 'XX'}), L, mode, depth)                   # multi-character variable names
                if (idx // stride) % 4 == 3:
                    # wave 6: the rule LIST holds one rule twice (S -> Ab | Ab is legal text); the longest rule is the one repeated
                    rules = list(spec[3])
                    j = max(range(len(rules)), key=lambda i: (len(rules[i][1]), -i))
                    check(acc, spec[:3] + (tuple(rules[:j + 1] + [rules[j]] + rules[j + 1:]),) + spec[4:], L, mode, depth)


def plan(tier, seed):
    tasks = []
    P = 'mc.props.c08:t_space'

    def add(space, L, ns, stride=1, mode='plain', depth=0):
        tasks.extend((mode, P, {'space': space, 'L': L, 'shard': s, 'nshard': ns, 'stride': stride, 'offset': seed, 'mode': mode, 'depth': depth}) for s in range(ns))

    add('big', 4, 1)
    add('big', 4, 1, mode='instr', depth=1)
    add('biglong', 4, 1)
    add('cfg3u', 3, 16, stride=4 if tier == 'quick' else 1)
    add('cfg3u', 3, 16, stride=4 if tier == 'quick' else 1, mode='instr', depth=2)
    add('cfg4u', 2, 16, stride=8 if tier == 'quick' else 1)
    add('cfg4u', 2, 16, stride=8 if tier == 'quick' else 1, mode='instr', depth=1)
    if tier == 'quick':
        add('cfg2', 4, 32, stride=16)
        add('cfg2+', 4, 32, stride=16)
        add('cfg2', 4, 16, stride=64, mode='instr', depth=1)
        add('cfg2+', 4, 16, stride=64, mode='instr', depth=1)
        bounds = 'CFG2 and CFG2+ stride 1/16 (plain: conversion, 5 public phases chained, exercise path phases 1..5 with start T and S); stride 1/64 under the scheduler d<=1; CFGbig(24..28); one grammar in eight also with the character ε as a terminal (epsilon = e) / with multi-character variable names; four-variable unit-cycle family CFG4u stride 1/8; three-variable unit-rule family CFG3u (6 912 grammars, unit cycles of length 2 and 3) stride 1/4, plain and under the scheduler d<=2; languages compared on words <= 4'
    else:
        add('cfg2', 5, 128)
        add('cfg2+', 5, 128)
        add('cfg2', 4, 64, stride=4, mode='instr', depth=1)
        add('cfg2+', 4, 64, stride=4, mode='instr', depth=1)
        bounds = 'CFG2 (53 592) and CFG2+ (53 240) all, languages on words <= 5; stride 1/4 under the scheduler d<=1; CFGbig(24..28); CFG3u (6 912 three-variable unit-rule grammars) plain and under the scheduler d<=2'
    return {'tasks': tasks, 'bounds': {'spaces': bounds}, 'exhaustive': True,
            'rule': 'every grammar of the space: cfg_to_chomsky, the five public phase functions chained, cfg_apply_chomsky(G,p,start) for p=1..5; language by least fixpoint on both sides; scheduled layer: cfg_to_chomsky under every <= d set-order deviation; non-trivial = grammar with an epsilon rule and a unit rule',
            'assumptions': ['CFG equivalence is undecidable: languages are compared on all words up to the stated length', 'wave 5: CFGbig(25..28) with one rule of 12-16 symbols (10-14 fresh variables with one hint)', 'wave 6: one grammar in four also with its longest rule listed twice']}
