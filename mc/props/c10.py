"""C10 - PDA normal forms and PDA -> CFG preserve the language; structural promises hold; input untouched."""
import copy

from mc import core, spaces
from mc.props import common
from mc.oracles import pda, cfg


def tup(x):
    return tuple(tup(y) for y in x) if isinstance(x, list) else x


def to_ref(acc, name, inst, rp, X):
    try:
        return pda.from_lib(X)
    except pda.Malformed as e:
        acc.viol(name, 'result is not a valid PDA', inst, repro=rp, observed=str(e))
    except Exception as e:
        acc.viol(name, 'result is not a valid PDA', inst, repro=rp, observed=core.describe_exc(e))
    return None


def check(acc, spec, L, stack=('x', 'y'), scheme='s', eps='_', with_cfg=True):
    import gambatools.pda_algorithms as pa
    params = {'spec': spec, 'L': L, 'stack': list(stack), 'scheme': scheme, 'eps': eps, 'with_cfg': with_cfg}
    rp = {'fn': 'mc.props.c10:one', 'mode': 'plain', 'params': params}
    R = pda.ref(spec, stack, scheme)
    lang = pda.language(R, L)
    shown = pda.show(spec, stack, scheme)
    acc.states += 1
    accs, complete = pda.accepting_configs(R, L)
    nonempty_accept = any(st for _, st in accs)
    acc.c['accepts_with_non_empty_stack'] += nonempty_accept
    if lang and nonempty_accept:
        acc.nontrivial += 1
        if len(spec[4]) >= 2:
            acc.sample(dict(shown, language_up_to=sorted(lang)))

    def fresh():
        return pda.build(spec, stack, scheme, eps)

    def same_language(name, inst, X):
        got = pda.language(X, L, R.Sigma)
        acc.validated += 1
        if got != lang:
            d = sorted(got ^ lang, key=lambda w: (len(w), w))[0]
            acc.viol(name, 'language changed', inst, repro=rp, observed={'word': d or 'ε', 'in_result': d in got, 'in_original': d in lang})
            return False
        return True

    # 1. single accepting state (in place, on a deep copy)
    name = 'pda_to_one_accepting_state_in_place'
    inst = {'pda': shown, 'op': name}
    P = fresh()
    ok, _ = core.lib_call(acc, name, inst, pa.pda_to_one_accepting_state_in_place, P, repro=rp)
    acc.transitions += 1
    if ok:
        acc.evals += 1
        X = to_ref(acc, name, inst, rp, P)
        if X is not None:
            if len(X.F) != 1:
                acc.viol(name, 'result does not have exactly one accepting state', inst, repro=rp, observed=sorted(X.F))
            if set(X.Sigma) != set(R.Sigma):
                acc.viol(name, 'input alphabet changed', inst, repro=rp)
            else:
                same_language(name, inst, X)
    # 2. push/pop format
    name = 'pda_to_push_pop'
    inst = {'pda': shown, 'op': name}
    P = fresh()
    before = pda.snap(P)
    ok, Y = core.lib_call(acc, name, inst, pa.pda_to_push_pop, P, repro=rp)
    acc.transitions += 1
    if ok:
        acc.evals += 1
        if pda.snap(P) != before:
            acc.viol(name, 'input PDA was modified', inst, repro=rp)
        X = to_ref(acc, name, inst, rp, Y)
        if X is not None:
            bad = [t for t in X.trans if (t[2] == pda.EPS) == (t[4] == pda.EPS)]
            if bad:
                acc.viol(name, 'a move is not push-xor-pop', inst, repro=rp, observed=sorted(map(str, bad))[:3])
            if set(X.Sigma) != set(R.Sigma):
                acc.viol(name, 'input alphabet changed', inst, repro=rp)
            else:
                same_language(name, inst, X)
    # 3. accept on empty stack
    name = 'pda_to_accept_on_empty_stack'
    inst = {'pda': shown, 'op': name}
    P = fresh()
    before = pda.snap(P)
    ok, Y = core.lib_call(acc, name, inst, pa.pda_to_accept_on_empty_stack, P, repro=rp)
    acc.transitions += 1
    if ok:
        acc.evals += 1
        if pda.snap(P) != before:
            acc.viol(name, 'input PDA was modified', inst, repro=rp)
        X = to_ref(acc, name, inst, rp, Y)
        if X is not None:
            xs, _ = pda.accepting_configs(X, L)
            bad = [c for c in xs if c[1]]
            if bad:
                acc.viol(name, 'result accepts with a non-empty stack', inst, repro=rp, observed=sorted(map(str, bad))[:3])
            if set(X.Sigma) != set(R.Sigma):
                acc.viol(name, 'input alphabet changed', inst, repro=rp)
            else:
                same_language(name, inst, X)
    # 4. PDA -> CFG
    if with_cfg:
        variants = [False]
        if complete and not nonempty_accept:
            variants.append(True)
        for flag in variants:
            name = 'pda_to_cfg'
            inst = {'pda': shown, 'op': name, 'accepts_on_empty_stack': flag}
            P = fresh()
            before = pda.snap(P)
            ok, G = core.lib_call(acc, name, inst, pa.pda_to_cfg, P, flag, repro=rp)
            acc.transitions += 1
            if not ok:
                continue
            acc.evals += 1
            if pda.snap(P) != before:
                acc.viol(name, 'input PDA was modified', inst, repro=rp)
            try:
                g = cfg.from_lib(G)
            except cfg.Malformed as e:
                acc.viol(name, 'result is not a valid grammar', inst, repro=rp, observed=str(e))
                continue
            except Exception as e:
                acc.viol(name, 'result is not a valid grammar', inst, repro=rp, observed=core.describe_exc(e))
                continue
            acc.mx('max_grammar_rules', len(g[3]))
            if not set(g[2]) <= set(R.Sigma):
                acc.viol(name, 'grammar has terminals outside the input alphabet', inst, repro=rp, observed=g[2])
                continue
            got, _ = cfg.language(g, L)
            acc.validated += 1
            if got != lang:
                d = sorted(got ^ lang, key=lambda w: (len(w), w))[0]
                acc.viol(name, 'grammar language differs from the PDA language', inst, repro=rp, observed={'word': d or 'ε', 'in_grammar': d in got, 'in_pda': d in lang})


def one(acc, spec, L, stack, scheme, eps, with_cfg=True):
    check(acc, tup(spec), L, tuple(stack), scheme, eps, with_cfg)


def replace_family():
    """PDAs with two stack symbols built from: one push on epsilon input, TWO replace moves, one pop on epsilon
    input (n = 2 states, 2 letters, q0 = s0, |F| = 1): the shape in which an intermediate state of the push/pop
    construction could be shared wrongly between transitions."""
    import itertools
    n, k, g = 2, 2, 2
    E, X = k, g
    pushes = [(p, E, X, q, v) for p in range(n) for q in range(n) for v in range(g)]
    reps = [(p, a, u, q, v) for p in range(n) for a in range(k) for u in range(g) for q in range(n) for v in range(g)]
    pops = [(p, E, u, q, X) for p in range(n) for u in range(g) for q in range(n)]
    idx = 0
    for pu in pushes:
        for r1, r2 in itertools.combinations(reps, 2):
            if r1[3] != r2[3]:
                continue                     # both replace moves enter the same state
            for po in pops:
                for f in range(n):
                    yield idx, ('pda', n, k, g, tuple(sorted({pu, r1, r2, po})), 0, 1 << f)
                    idx += 1


def t_replace(acc, L, shard, nshard, stride, offset, with_cfg=False):
    for idx, spec in replace_family():
        if idx % stride == offset % stride and (idx // stride) % nshard == shard:
            check(acc, spec, L, ('x', 'y'), 's', '_', with_cfg)


def t_family(acc, family, L, shard, nshard, stack=('x', 'y'), scheme='s', eps='_', with_cfg=True):
    """Thin families of mc.oracles.pda / mc.props.c09 (wave 5)."""
    from mc.props import c09
    gen = {'noop': pda.noop_family, 'multichar': c09.multichar_family, 'cyc': lambda: pda.cyc_family(3), 'cycfront': lambda: pda.cyc_family(3, front=True)}[family]()
    for idx, spec in gen:
        if idx % nshard == shard:
            check(acc, spec, L, tuple(stack), scheme, eps, with_cfg)


def t_space(acc, n, k, g, t, L, shard, nshard, stride=1, offset=0, stack=('x', 'y'), scheme='s', eps='_', with_cfg=True, fbits=None, tmin=0):
    for idx, spec in pda.pdas(n, k, g, t, fbits=fbits, tmin=tmin):
        if idx % stride == offset % stride and (idx // stride) % nshard == shard:
            check(acc, spec, L, tuple(stack), scheme, eps, with_cfg)


def plan(tier, seed):
    tasks = []
    P = 'mc.props.c10:t_space'

    def add(n, k, g, t, L, ns, stride=1, **kw):
        tasks.extend(('plain', P, dict({'n': n, 'k': k, 'g': g, 't': t, 'L': L, 'shard': s, 'nshard': ns, 'stride': stride, 'offset': seed}, **kw)) for s in range(ns))

    add(1, 1, 1, 3, 4, 2)
    rs = 4 if tier == 'quick' else 1
    tasks.extend(('plain', 'mc.props.c10:t_replace', {'L': 2, 'shard': s_, 'nshard': 32, 'stride': rs, 'offset': seed, 'with_cfg': True}) for s_ in range(32))
    add(1, 1, 1, 3, 3, 1, stack=['$'], eps='ε')
    add(1, 1, 1, 3, 3, 1, stack=['∅'], eps='')
    add(1, 1, 1, 3, 3, 1, scheme='p')
    F = 'mc.props.c10:t_family'
    tasks.extend(('plain', F, {'family': 'noop', 'L': 4, 'shard': s_, 'nshard': 8, 'with_cfg': s_ % 4 == 0}) for s_ in range(8))
    tasks.append(('plain', F, {'family': 'multichar', 'L': 3, 'shard': 0, 'nshard': 1, 'stack': ['A', 'B', 'AB']}))
    tasks.append(('plain', F, {'family': 'multichar', 'L': 3, 'shard': 0, 'nshard': 1, 'stack': ['Z0', 'Z', '0']}))
    tasks.append(('plain', F, {'family': 'cyc', 'L': 1, 'shard': 0, 'nshard': 1, 'stack': ['γ', 'Ω'], 'scheme': 'u', 'with_cfg': False}))
    tasks.append(('plain', F, {'family': 'cycfront', 'L': 2, 'shard': 0, 'nshard': 1, 'with_cfg': False}))
    add(1, 1, 1, 3, 3, 1, stack=['γ'], scheme='u')
    add(2, 1, 1, 2, 3, 4, stride=4, stack=['Z0'], scheme='g')
    # wave 7: state names M2, M3 (the generated prefix with a gap below it) on automata with up to three moves that neither push nor pop
    add(1, 1, 1, 3, 3, 1, scheme='G')
    add(2, 1, 1, 2, 3, 4, scheme='G', with_cfg=False)
    add(2, 1, 1, 3, 3, 16, stride=4 if tier == 'quick' else 1, tmin=3, scheme='G', with_cfg=False)
    base = list(tasks)
    for kn in ({'dorder': 'aq'}, {'dorder': 'rev'}):
        tasks += common.knob_copies(base, lambda name, p: name.endswith('t_space') and p['n'] == 1 or (name.endswith('t_family') and p['family'] == 'multichar'), kn)
    if tier == 'quick':
        add(2, 1, 1, 2, 4, 16)
        add(2, 1, 1, 3, 4, 32, stride=16, tmin=3)
        add(2, 1, 1, 3, 4, 16, stride=4, tmin=3, with_cfg=False)
        add(2, 2, 1, 2, 3, 16, stride=8)
        add(2, 1, 2, 2, 3, 16, stride=8)
        add(2, 1, 1, 2, 3, 8, stride=4, stack=['$'], scheme='p')
        add(2, 1, 1, 2, 3, 8, stride=4, stack=['∅'])
        add(3, 1, 1, 2, 3, 8, stride=2, fbits=[7], with_cfg=False)
        add(3, 1, 1, 2, 3, 8, stride=16, fbits=[7])
        bounds = 'replace family (one push, two replace moves into one state, one pop; 2 stack symbols, 2 letters) stride 1/4 (with PDA->CFG); PDA(1,1,1,<=3) all variants; PDA(2,1,1,<=2) all; PDA(2,1,1,3) stride 1/16 (1/4 without PDA->CFG); PDA(2,2,1,<=2), PDA(2,1,2,<=2) stride 1/8; Gamma containing $ / ∅, state names q_accept/q_initial/M1 and M2/M3 (gap below), PDA(2,1,1,3) stride 1/4 under the latter; PDA(3,1,1,<=2) with |F|=3; languages on words <= 4 (k=1) / 3'
    else:
        add(2, 1, 1, 3, 4, 128, with_cfg=False)
        add(2, 1, 1, 3, 4, 128, stride=4)
        add(2, 2, 1, 2, 3, 64, with_cfg=False)
        add(2, 2, 1, 2, 3, 64, stride=2)
        add(2, 1, 2, 2, 3, 64)
        add(2, 1, 1, 3, 3, 32, stride=4, stack=['$'], scheme='p')
        add(2, 1, 1, 3, 3, 32, stride=4, stack=['∅'])
        add(3, 1, 1, 2, 3, 32, fbits=[7, 5, 3])
        bounds = 'replace family all (30 720); PDA(2,1,1,<=3) all (PDA->CFG on stride 1/4); PDA(2,2,1,<=2) (PDA->CFG 1/2), PDA(2,1,2,<=2); Gamma with $ / ∅ and colliding state names stride 1/4; names M2/M3 on all of PDA(2,1,1,<=3); PDA(3,1,1,<=2) with |F| in {2,3}'
    return {'tasks': tasks, 'bounds': {'spaces': bounds}, 'exhaustive': True,
            'rule': 'every labelled PDA in the bounds x {single accepting state, push/pop form, accept on empty stack, PDA->CFG (and with accepts_on_empty_stack=True when the oracle shows the precondition)}; languages by saturation (PDA) / least fixpoint (CFG) on all words up to L; non-trivial = PDA with non-empty language that accepts with a non-empty stack',
            'assumptions': ['CFG/PDA equivalence compared on all words up to the stated length', 'delta is a defaultdict(set) as built by the parser', 'wave 5: counters written as PDAs with 12-14 moves that neither push nor pop (12+ generated intermediate states), stack symbols of several characters (A, B, AB / Z0, Z, 0) and outside latin-1 (constructor-built PDAs), coprime push/pop epsilon cycles with <= 3 states each, transition dict filled in other orders; every name is an equal but distinct str object']}
