"""Helpers shared by the property drivers."""
import copy

from mc import core, instr, spaces
from mc.oracles import fa

BUDGET = 50000


def snap_dfa(D):
    return (frozenset(D.Q), frozenset(D.Sigma), frozenset(D.delta.items()), D.q0, frozenset(D.F))


def snap_nfa(N):
    """Observable content of an NFA: delta as a relation (empty entries are not observable)."""
    rel = frozenset((q, a, r) for (q, a), R in N.delta.items() for r in R)
    return (frozenset(N.Q), frozenset(N.Sigma), rel, N.q0, frozenset(N.F), N.epsilon)


def ref_of_dfa_spec(spec, scheme='s', letters='ab'):
    return fa.from_dfa_parts(*spaces.dfa_parts(spec, scheme, letters))


def ref_of_nfa_spec(spec, scheme='s', eps=''):
    Q, Sg, T, q0, F = spaces.nfa_parts(spec, scheme, eps)
    return fa.from_parts(Q, Sg, T, q0, F, eps)


def lib_dfa_to_ref(acc, function, inst, D, rp, total=True):
    """Validity of a returned DFA re-checked by oracle code. Returns FA or None (violation recorded)."""
    try:
        from gambatools.dfa import DFA
        if not isinstance(D, DFA):
            raise fa.Malformed('result is {} not a DFA'.format(type(D).__name__))
        return fa.from_lib_dfa(D, total=total)
    except fa.Malformed as e:
        acc.viol(function, 'result is not a valid DFA', inst, repro=rp, observed=str(e))
    except Exception as e:
        acc.viol(function, 'result is not a valid DFA', inst, repro=rp, observed=core.describe_exc(e))
    return None


def lib_nfa_to_ref(acc, function, inst, N, rp):
    try:
        from gambatools.nfa import NFA
        if not isinstance(N, NFA):
            raise fa.Malformed('result is {} not an NFA'.format(type(N).__name__))
        return fa.from_lib_nfa(N)
    except fa.Malformed as e:
        acc.viol(function, 'result is not a valid NFA', inst, repro=rp, observed=str(e))
    except Exception as e:
        acc.viol(function, 'result is not a valid NFA', inst, repro=rp, observed=core.describe_exc(e))
    return None


def expect_equiv(acc, function, inst, R, A, rp, clause='language differs from the reference', sigma=None):
    w = fa.equivalent(R, A, sigma)
    acc.validated += 1
    if w is not None:
        acc.viol(function, clause, inst, repro=rp, observed={'shortest_distinguishing_word': w, 'in_result': fa.accepts(R, w), 'in_reference': fa.accepts(A, w)})
        return False
    return True


def sched_call(acc, function, inst, f, *args, boost=(), budget=BUDGET, native=False, rp=None, budget_is_violation=True, record=True):
    """Run f under the set-order scheduler. Returns (status, value), status in ok / budget / raise."""
    S = instr.S
    S.reset(boost=boost, budget=budget, native=native, record=record)
    core.CALLS += 1
    try:
        v = f(*args)
        acc.mx('max_ticks_of_a_terminating_run', S.ticks)
        return 'ok', v
    except instr.StepBudgetExceeded:
        if budget_is_violation:
            acc.viol(function, 'no result within the step budget ({} loop iterations)'.format(budget), inst, repro=rp)
        return 'budget', None
    except (core.WallClock, KeyboardInterrupt, SystemExit):
        raise
    except BaseException as e:
        acc.viol(function, 'raises', inst, repro=rp, error=core.describe_exc(e))
        return 'raise', None
    finally:
        S.budget = 10 ** 9


def explore(acc, execute, depth, cap=20000):
    st = instr.explore(execute, depth, cap)
    acc.transitions += st['runs']
    acc.states += st['digests']
    acc.mx('max_runs_per_instance', st['runs'])
    acc.c['schedule_executions'] += st['runs']
    acc.c['distinct_traces'] += st['digests']
    if st['capped']:
        acc.c['instances_capped_before_full_depth'] += 1
    return st


OBJ_ORDERS = tuple('obj%d%s' % (b, f) for b in range(5) for f in ('', 'f'))


def t_ordered(acc, fn, params, order, knobs=None):
    """Runs a plain task function inside an instrumented worker under one fixed set-order policy:
    'canonical' / 'reversed' - one global order for every set iteration of the library;
    'obj<b>' / 'obj<b>f'    - per-object orders: the i-th distinct set object seen during one library call is iterated
                              in canonical order iff bit b of i is 0 (f: 1).  Over b = 0..4 with both polarities, any two
                              set objects among the first 32 of a call are iterated in opposite orders at least twice -
                              code that pairs up positions of two equal sets (a set and its copy) is exposed.
    knobs: presentation knobs of mc.spaces (dict), applied for the duration of the task."""
    import importlib
    mod, name = fn.split(':')
    f = getattr(importlib.import_module(mod), name)
    kw = {}
    if order == 'keep':
        # an instrumented task that drives the scheduler itself: only the presentation knobs are applied
        saved = dict(spaces.KNOBS)
        spaces.KNOBS.update(knobs or {})
        try:
            f(acc, **params)
        finally:
            spaces.KNOBS.clear()
            spaces.KNOBS.update(saved)
        _relabel(acc, fn, order, knobs)
        return
    if order.startswith('obj'):
        kw = {'objbit': int(order[3]), 'objflip': 1 if order.endswith('f') else 0}
        core.NEWCALL = instr.S.newcall
    instr.S.reset(boost=(), budget=10 ** 15, native=(order == 'native'), record=False, reverse=(order == 'reversed'), **kw)
    saved = dict(spaces.KNOBS)
    spaces.KNOBS.update(knobs or {})
    try:
        f(acc, **params)
    finally:
        instr.S.reset()
        core.NEWCALL = None
        spaces.KNOBS.clear()
        spaces.KNOBS.update(saved)
    _relabel(acc, fn, order, knobs)


def _relabel(acc, fn, order, knobs):
    label = order + (' ' + ','.join('%s=%s' % kv for kv in sorted((knobs or {}).items())) if knobs else '')
    acc.c['executions_under_%s' % label.replace(' ', '_')] += acc.transitions
    for lst in acc.viols.values():
        for rec in lst:
            if isinstance(rec.get('instance'), dict):
                if order not in ('native', 'keep'):
                    rec['instance']['set_order'] = order + ' order policy (instrumented)'
                if knobs:
                    rec['instance']['presentation'] = dict(knobs)
            rp = rec.get('repro')
            if rp and rp.get('fn') != 'mc.props.common:t_ordered':
                rec['repro'] = {'fn': 'mc.props.common:t_ordered', 'mode': 'instr', 'params': {'fn': rp['fn'], 'params': rp['params'], 'order': order, 'knobs': knobs}}


def ordered_copies(tasks, select, orders=('canonical', 'reversed'), knobs=None):
    """For every plain task accepted by select(name, params) add copies that run under the given order policies
    (and presentation knobs)."""
    out = []
    for (mode, name, params) in tasks:
        if mode == 'plain' and select(name, params):
            for o in orders:
                out.append(('instr', 'mc.props.common:t_ordered', {'fn': name, 'params': params, 'order': o, 'knobs': knobs}))
    return out


def knob_copies(tasks, select, knobs):
    """Copies of tasks under presentation knobs: plain tasks run with CPython's own set order (instrumented worker,
    native=True); instrumented tasks keep driving the scheduler themselves."""
    out = ordered_copies(tasks, select, orders=('native',), knobs=knobs)
    for (mode, name, params) in tasks:
        if mode == 'instr' and name != 'mc.props.common:t_ordered' and select(name, params):
            out.append(('instr', 'mc.props.common:t_ordered', {'fn': name, 'params': params, 'order': 'keep', 'knobs': knobs}))
    return out
