"""C06 - regexp -> NFA and DFA -> regexp preserve the language exactly, whatever the elimination order."""
from mc import core, spaces
from mc.oracles import fa, rx
from mc.props import common


def tup(x):
    return tuple(tup(y) for y in x) if isinstance(x, list) else x


def check_re(acc, spec):
    from gambatools.regexp_algorithms import regexp_to_nfa
    rp = {'fn': 'mc.props.c06:one_re', 'mode': 'plain', 'params': {'spec': spec}}
    inst = {'regexp': rx.show(spec)}
    r = rx.to_lib(spec)
    acc.states += 1
    ok, N = core.lib_call(acc, 'regexp_to_nfa', inst, regexp_to_nfa, r, repro=rp)
    acc.transitions += 1
    if not ok:
        return
    acc.evals += 1
    R = common.lib_nfa_to_ref(acc, 'regexp_to_nfa', inst, N, rp)
    if R is None:
        return
    sg = sorted(rx.symbols(spec) | set(R.Sigma))
    common.expect_equiv(acc, 'regexp_to_nfa', inst, R, rx.glushkov(spec), rp, sigma=sg)
    if rx.symbols(spec) and rx.nodes(spec) >= 4:
        acc.nontrivial += 1
        acc.sample({'regexp': rx.show(spec), 'nfa_states': len(R.Q)})
    try:
        if rx.from_lib(r) != spec:
            acc.viol('regexp_to_nfa', 'argument was modified', inst, repro=rp)
    except rx.Malformed:
        acc.viol('regexp_to_nfa', 'argument was modified', inst, repro=rp)


def one_re(acc, spec):
    check_re(acc, tup(spec))


def check_dfa(acc, spec, depth, scheme='s', only=None, letters='ab'):
    from gambatools.regexp_algorithms import dfa_to_regexp
    A = common.ref_of_dfa_spec(spec, scheme, letters)

    def execute(boost, native=False):
        rp = {'fn': 'mc.props.c06:one_dfa', 'mode': 'instr', 'params': {'spec': spec, 'scheme': scheme, 'boost': list(boost), 'native': native, 'letters': letters}}
        inst = {'dfa': spec, 'scheme': scheme, 'alphabet': letters, 'schedule': 'native' if native else {'boost': list(boost)}}
        D = spaces.build_dfa(spec, scheme, letters)
        before = common.snap_dfa(D)
        st, r = common.sched_call(acc, 'dfa_to_regexp', inst, dfa_to_regexp, D, boost=boost, native=native, rp=rp)
        if st != 'ok':
            return
        acc.evals += 1
        if common.snap_dfa(D) != before:
            acc.viol('dfa_to_regexp', 'input DFA was modified', inst, repro=rp)
        try:
            rs = rx.from_lib(r)
        except rx.Malformed as e:
            acc.viol('dfa_to_regexp', 'result is not a regular expression', inst, repro=rp, observed=str(e))
            return
        acc.mx('max_regexp_nodes', rx.nodes(rs))
        if not rx.symbols(rs) <= set(A.Sigma):
            acc.viol('dfa_to_regexp', 'expression uses symbols outside the alphabet', inst, repro=rp, observed=sorted(rx.symbols(rs)))
            return
        w = fa.equivalent(rx.glushkov(rs, A.Sigma), A, sigma=A.Sigma)
        acc.validated += 1
        if w is not None:
            acc.viol('dfa_to_regexp', 'expression denotes a different language than the DFA', inst, repro=rp,
                     observed={'regexp': rx.show(rs)[:300], 'shortest_distinguishing_word': w, 'dfa_accepts': fa.accepts(A, w)})

    if only is not None:
        execute(tup(only[0]), only[1])
        return
    acc.c['instances'] += 1
    if 0 < len(A.F) and len(fa.reachable(A)) >= 2:
        acc.nontrivial += 1
        if len(A.Q) >= 3:
            acc.sample({'dfa': spaces.dfa_parts(spec, scheme, letters)})
    execute((), native=True)
    acc.transitions += 1
    common.explore(acc, execute, depth)


def one_dfa(acc, spec, scheme, boost=(), native=False, letters='ab'):
    check_dfa(acc, spec, 0, scheme, only=(boost, native), letters=letters)


def t_nest(acc, m, shard, nshard):
    """Thin deep family: (X* . b)*, (b . X*)*, (X* + b)* . X for every X with <= m nodes: nested stars over larger
    operands (an expression with 10-12 nodes, an automaton with more than ten generated states)."""
    b = ('s', 'b')
    for idx, X in rx.trees_up_to(m):
        if idx % nshard != shard or rx.nodes(X) < 4:
            continue
        check_re(acc, ('*', ('.', ('*', X), b)))
        if idx % 3 == 0:
            check_re(acc, ('*', ('.', b, ('*', X))))
        if idx % 3 == 1:
            check_re(acc, ('.', ('*', ('+', ('*', X), b)), X))


def simplified(r):
    """Shapes that survive regexp_simplify (the labels a GNFA carries after earlier eliminations): no 0 below the root,
    no 1 as a factor, no star of 0 / 1 / star."""
    op = r[0]
    if op in ('0', '1', 's'):
        return True
    if op == '*':
        return r[1][0] not in ('0', '1', '*') and simplified(r[1])
    l, rr = r[1], r[2]
    if l[0] == '0' or rr[0] == '0':
        return False
    if op == '.' and (l[0] == '1' or rr[0] == '1'):
        return False
    return simplified(l) and simplified(rr)


def t_step(acc, m, shard, nshard):
    """The elimination step itself, from non-initial states: a GNFA start -R1-> q -R3-> accept with loop R2 on q and a
    direct edge R4; gnfa_minimize rips q.  R1, R2 range over all simplified expressions with <= m nodes, R3, R4 over
    {0, 1, a, b}.  The result must denote R1 R2* R3 + R4."""
    from collections import defaultdict
    from gambatools import regexp
    from gambatools.gnfa import GNFA
    from gambatools.regexp_algorithms import gnfa_minimize
    big = [r for _, r in rx.trees_up_to(m) if simplified(r)]
    small = [('0',), ('1',), ('s', 'a'), ('s', 'b')]
    k = 0
    for R1 in big:
        for R2 in big:
            k += 1
            if k % nshard != shard:
                continue
            for R3 in small:
                for R4 in small:
                    rp = {'fn': 'mc.props.c06:one_step', 'mode': 'plain', 'params': {'R': [R1, R2, R3, R4]}}
                    inst = {'gnfa': 'start -R1-> q -R3-> accept, loop R2 on q, start -R4-> accept', 'R1': rx.show(R1), 'R2': rx.show(R2), 'R3': rx.show(R3), 'R4': rx.show(R4)}
                    delta = defaultdict(lambda: regexp.Zero())
                    for key, R in ((('start', 'q'), R1), (('q', 'q'), R2), (('q', 'accept'), R3), (('start', 'accept'), R4)):
                        if R != ('0',):
                            delta[key] = rx.to_lib(R)
                    G = GNFA({'start', 'q', 'accept'}, {'a', 'b'}, delta, 'start', 'accept')
                    acc.states += 1
                    ok, _ = core.lib_call(acc, 'gnfa_minimize', inst, gnfa_minimize, G, repro=rp)
                    acc.transitions += 1
                    if not ok:
                        continue
                    acc.evals += 1
                    try:
                        rs = rx.from_lib(G.delta['start', 'accept'])
                    except rx.Malformed as e:
                        acc.viol('gnfa_minimize', 'result is not a regular expression', inst, repro=rp, observed=str(e))
                        continue
                    exp = ('+', ('.', R1, ('.', ('*', R2), R3)), R4)
                    w = fa.equivalent(rx.glushkov(rs, ['a', 'b']), rx.glushkov(exp, ['a', 'b']), sigma=['a', 'b'])
                    acc.validated += 1
                    if rx.nodes(R1) + rx.nodes(R2) >= 5:
                        acc.nontrivial += 1
                    if w is not None:
                        acc.viol('gnfa_minimize', 'eliminating one state changes the language of the GNFA', inst, repro=rp, observed={'regexp': rx.show(rs)[:300], 'shortest_distinguishing_word': w})


def word_re(w):
    r = ('s', w[-1])
    for c in reversed(w[:-1]):
        r = ('.', ('s', c), r)
    return r


def t_step_words(acc, shard, nshard):
    """The elimination step with LONG labels (wave 6): R1, R3 and R4 are words (concatenations of 2-3, 2 and 5 symbols),
    R2 is 0, a symbol or a two-letter word.  Both alternatives of the resulting sum have no word shorter than five
    letters: whatever a simplifier decides by looking at short words only is decided wrongly here."""
    import itertools
    W = lambda n: [''.join(t) for t in itertools.product('ab', repeat=n)]
    k = 0
    for u in W(2) + W(3):
        for r2 in [('0',), ('s', 'a'), ('s', 'b'), word_re('ab'), word_re('ba')]:
            for v in W(2):
                for w in W(5):
                    k += 1
                    if k % nshard != shard:
                        continue
                    R = [word_re(u), r2, word_re(v), word_re(w)]
                    sub = core.Acc()
                    one_step(sub, R)
                    acc.states += 1
                    acc.transitions += 1
                    acc.evals += 1
                    acc.validated += 1
                    acc.nontrivial += 1
                    for key, recs in sub.viols.items():
                        for rec in recs:
                            acc.viol(key[0], key[1], rec.get('instance'), repro={'fn': 'mc.props.c06:one_step', 'mode': 'plain', 'params': {'R': R}}, observed=rec.get('observed'), error=rec.get('error'))


def one_step(acc, R):
    R1, R2, R3, R4 = [tup(x) for x in R]
    from collections import defaultdict
    from gambatools import regexp
    from gambatools.gnfa import GNFA
    from gambatools.regexp_algorithms import gnfa_minimize
    delta = defaultdict(lambda: regexp.Zero())
    for key, R_ in ((('start', 'q'), R1), (('q', 'q'), R2), (('q', 'accept'), R3), (('start', 'accept'), R4)):
        if R_ != ('0',):
            delta[key] = rx.to_lib(R_)
    G = GNFA({'start', 'q', 'accept'}, {'a', 'b'}, delta, 'start', 'accept')
    inst = {'R1': rx.show(R1), 'R2': rx.show(R2), 'R3': rx.show(R3), 'R4': rx.show(R4)}
    ok, _ = core.lib_call(acc, 'gnfa_minimize', inst, gnfa_minimize, G)
    if ok:
        rs = rx.from_lib(G.delta['start', 'accept'])
        exp = ('+', ('.', R1, ('.', ('*', R2), R3)), R4)
        w = fa.equivalent(rx.glushkov(rs, ['a', 'b']), rx.glushkov(exp, ['a', 'b']), sigma=['a', 'b'])
        if w is not None:
            acc.viol('gnfa_minimize', 'eliminating one state changes the language of the GNFA', inst, observed={'regexp': rx.show(rs)[:300], 'shortest_distinguishing_word': w})


def t_re(acc, m, shard, nshard, lo=0):
    for idx, spec in rx.trees_up_to(m):
        if idx % nshard == shard and rx.nodes(spec) > lo:
            check_re(acc, spec)


def t_dfa(acc, n, k, depth, shard, nshard, scheme='s', stride=1, offset=0, letters='ab'):
    for idx in range((offset % stride) + shard * stride, spaces.dfa_size(n, k), nshard * stride):
        check_dfa(acc, spaces.dfa_spec(n, k, idx), depth, scheme, letters=letters)


def plan(tier, seed):
    tasks = []

    def re(m, ns, lo=0):
        tasks.extend(('plain', 'mc.props.c06:t_re', {'m': m, 'shard': s, 'nshard': ns, 'lo': lo}) for s in range(ns))

    def dfa(n, k, depth, ns, scheme='s', stride=1, letters='ab'):
        tasks.extend(('instr', 'mc.props.c06:t_dfa', {'n': n, 'k': k, 'depth': depth, 'shard': s, 'nshard': ns, 'scheme': scheme, 'stride': stride, 'offset': seed, 'letters': letters}) for s in range(ns))

    tasks.extend(('plain', 'mc.props.c06:t_nest', {'m': 7 if tier == 'quick' else 8, 'shard': s_, 'nshard': 32}) for s_ in range(32))
    for (n, k) in ((1, 0), (2, 0), (1, 1), (1, 2), (2, 1), (2, 2)):
        dfa(n, k, 2, 1)
    dfa(2, 1, 1, 1, 'x')
    dfa(2, 2, 1, 1, 'q')
    for sch in ('g', 'u', 'K', 'f'):
        dfa(2, 1, 1, 1, sch)
        dfa(2, 2, 0, 1, sch)
        dfa(3, 1, 0, 1, sch)
    dfa(1, 5, 1, 1, letters='w')
    dfa(2, 5, 0, 4, stride=4, letters='w')
    tasks.extend(('plain', 'mc.props.c06:t_step', {'m': 3, 'shard': s_, 'nshard': 16}) for s_ in range(16))
    tasks.extend(('plain', 'mc.props.c06:t_step_words', {'shard': s_, 'nshard': 8}) for s_ in range(8))
    for (n, k) in ((1, 1), (1, 2), (2, 1), (2, 2)):
        dfa(n, k, 1, 1, letters='01')
    dfa(3, 1, 1, 2, letters='01')
    if tier == 'quick':
        re(8, 48)
        dfa(3, 1, 2, 4)
        dfa(3, 2, 1, 32)
        dfa(3, 2, 0, 8, stride=8, letters='01')
        dfa(4, 1, 1, 32)
        dfa(1, 3, 1, 1)
        dfa(2, 3, 1, 4)
        dfa(3, 3, 0, 16, stride=64)
        dfa(4, 2, 0, 32, stride=256)
        bounds = 'RE(8) -> NFA (112 416 trees) + nested-star family over RE(7) operands (11-12 nodes); DFA(n<=2,k<=2), DFA(3,1) d<=2; DFA(3,2) d<=1; alphabets {a,b} and {0,1} (digit symbols print like the constants 0 and 1); DFA(4,1) all d<=1; three letters: DFA(1,3), DFA(2,3) d<=1, DFA(3,3) stride 1/64; DFA(4,2) stride 1/256; name schemes s, q, start/accept'
    else:
        re(9, 256)
        dfa(3, 2, 1, 32, letters='01')
        dfa(3, 1, 2, 8)
        dfa(3, 2, 2, 64)
        dfa(4, 1, 2, 64)
        dfa(1, 3, 2, 1)
        dfa(2, 3, 2, 4)
        dfa(3, 3, 1, 64, stride=8)
        dfa(4, 2, 1, 64, stride=32)
        dfa(3, 1, 1, 4, 'x')
        bounds = 'RE(9) -> NFA (665 252 trees); alphabets {a,b} and {0,1}; DFA(n<=3,k<=2) d<=2; DFA(4,1) d<=1; name schemes s, q, start/accept'
    return {'tasks': tasks, 'bounds': {'spaces': bounds}, 'exhaustive': True,
            'rule': 'every expression tree with <= m nodes (regexp_to_nfa vs Glushkov automaton, exact); every labelled DFA in the bounds x every state-elimination order reachable with <= d set-order deviations + CPython order (dfa_to_regexp vs the DFA, exact); non-trivial = expression with symbols and >= 4 nodes / DFA with F non-empty and >= 2 reachable states',
            'assumptions': ['set order = global order per execution (DESIGN 3.4)', 'wave 5: the elimination step gnfa_minimize also from non-initial states (one rip state, labels = all simplified expressions with <= 3 nodes); names start/start2/accept/accept2, non-decimal digits, q9/q10; five-letter alphabets', 'wave 6: the elimination step with word labels of 2-5 symbols (7 680 combinations): sums whose alternatives have no short word']}
