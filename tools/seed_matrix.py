#!/usr/bin/env python3
"""Re-evaluates every seeded change under /verif/seeded: negative controls (neg_*) against all twenty quick checks
(they run first), positive seeds against the quick check of their property.  Writes seeded/RESULTS.json.
Usage: tools/seed_matrix.py [--only prefix] [--jobs N]"""
import json, os, subprocess, sys, glob, threading
from concurrent.futures import ThreadPoolExecutor
ROOT = os.path.dirname(os.path.dirname(os.path.abspath(__file__)))
only = sys.argv[sys.argv.index('--only') + 1] if '--only' in sys.argv else ''
jobs = int(sys.argv[sys.argv.index('--jobs') + 1]) if '--jobs' in sys.argv else 3
path = os.path.join(ROOT, 'seeded', 'RESULTS.json')
out = json.load(open(path)) if os.path.exists(path) else {}
lock = threading.Lock()


def one(d):
    k = os.path.basename(d)
    neg = k.startswith('neg_')
    meta = json.load(open(os.path.join(d, 'meta.json')))
    pid = meta['property'] if meta['property'] != 'all' else 'C01'
    cmd = ['python3', os.path.join(ROOT, 'tools', 'seed_eval.py'), d, pid] + (['--all'] if neg else [])
    r = subprocess.run(cmd, capture_output=True, text=True, env=dict(os.environ, VERIF_PROCS='8'))
    try:
        res = json.loads(r.stdout)
        fired = sorted(p for p, c in res['checks'].items() if c['exit'] == 1)
        broken = sorted(p for p, c in res['checks'].items() if c['exit'] not in (0, 1))
        rec = {'tests_pass': res.get('tests_pass'), 'demo_with_change': res.get('demo_with_change'), 'demo_without_change': res.get('demo_without_change'),
               'checks_run': sorted(res['checks']), 'violation_reported_by': fired, 'machinery_fault_in': broken,
               'verdict': ('SILENT as required' if not fired and not broken else 'FALSE ALARM') if neg else ('DETECTED' if pid in fired else 'MISSED'),
               'first_kind': (res['checks'][fired[0]]['kinds'][:1] if fired else [])}
    except Exception:
        rec = {'error': r.stdout[-500:] + r.stderr[-500:]}
    with lock:
        out[k] = rec
        print(k, rec.get('verdict', 'ERROR'), rec.get('violation_reported_by'), flush=True)
        json.dump(out, open(path, 'w'), indent=1, ensure_ascii=False)


dirs = [d for d in sorted(glob.glob(os.path.join(ROOT, 'seeded', '*'))) if os.path.isdir(d) and os.path.basename(d).startswith(only)]
dirs.sort(key=lambda d: (not os.path.basename(d).startswith('neg_'), os.path.basename(d)))
with ThreadPoolExecutor(jobs) as ex:
    list(ex.map(one, dirs))
