#!/usr/bin/env python3
"""Re-evaluates every seeded change under /verif/seeded: negative controls (neg_*) against all twenty quick checks
(they run first), positive seeds against the quick check of their property.  Writes seeded/RESULTS.json.
Usage: tools/seed_matrix.py [--only prefix] [--match substring] [--scoped] [--pos] [--jobs N]"""
import json, os, subprocess, sys, glob, threading
from concurrent.futures import ThreadPoolExecutor
ROOT = os.path.dirname(os.path.dirname(os.path.abspath(__file__)))
only = sys.argv[sys.argv.index('--only') + 1] if '--only' in sys.argv else ''
match = sys.argv[sys.argv.index('--match') + 1] if '--match' in sys.argv else ''
jobs = int(sys.argv[sys.argv.index('--jobs') + 1]) if '--jobs' in sys.argv else 3
path = os.path.join(ROOT, 'seeded', 'RESULTS.json')
out = json.load(open(path)) if os.path.exists(path) else {}
lock = threading.Lock()
scoped = '--scoped' in sys.argv     # negative controls only against the checks that exercise the files they touch
AREAS = [('dfa_algorithms', 'C01 C02 C04 C06 C12 C13 C14 C16 C17 C19 C20'), ('dfa.py', 'C01 C03 C04 C14 C16 C19 C20'), ('nfa', 'C01 C02 C03 C06 C12 C13 C14 C15 C16 C17 C18 C19'),
         ('pda', 'C02 C09 C10 C12 C15 C16 C17 C19'), ('cfg', 'C02 C07 C08 C10 C12 C13 C15 C16 C19'), ('regexp', 'C02 C05 C06 C12 C13 C16 C19'),
         ('tm', 'C02 C11 C12 C16 C17 C19'), ('automaton', 'C12 C13 C16 C17 C19'), ('notebook', 'C12 C13 C19'), ('language', 'C02 C12 C13 C14 C19'),
         ('identifier', 'C03 C06 C18 C19'), ('global_settings', 'C02 C09 C15 C19')]


def scope_of(d):
    files = [l.split(' b/')[-1].strip() for l in open(os.path.join(d, 'patch.diff'), encoding='utf8') if l.startswith('diff --git')]
    props = set()
    for f in files:
        base = os.path.basename(f)
        hit = False
        for key, ps in AREAS:
            if key in base:
                props |= set(ps.split())
                hit = True
        if not hit:
            props |= {'C%02d' % i for i in range(1, 21)}
    return sorted(props)


def one(d):
    k = os.path.basename(d)
    neg = k.startswith('neg_')
    meta = json.load(open(os.path.join(d, 'meta.json')))
    pid = meta['property'] if meta['property'] != 'all' else 'C01'
    cmd = ['python3', os.path.join(ROOT, 'tools', 'seed_eval.py'), d, pid] + (['--all'] if neg else [])
    if neg and scoped:
        cmd += ['--props', ','.join(scope_of(d))]
    r = subprocess.run(cmd, capture_output=True, text=True, env=dict(os.environ, VERIF_PROCS='8'))
    try:
        res = json.loads(r.stdout)
        fired = sorted(p for p, c in res['checks'].items() if c['exit'] == 1)
        broken = sorted(p for p, c in res['checks'].items() if c['exit'] not in (0, 1))
        rec = {'tests_pass': res.get('tests_pass'), 'demo_with_change': res.get('demo_with_change'), 'demo_without_change': res.get('demo_without_change'),
               'checks_run': sorted(res['checks']), 'violation_reported_by': fired, 'machinery_fault_in': broken,
               'verdict': ('SILENT as required' if not fired and not broken else 'FALSE ALARM') if neg else ('DETECTED' if pid in fired else 'MISSED'),
               'first_kind': (res['checks'][fired[0]]['kinds'][:1] if fired else [])}
    except Exception:
        rec = {'error': r.stdout[-500:] + r.stderr[-500:]}
    with lock:
        out[k] = rec
        print(k, rec.get('verdict', 'ERROR'), rec.get('violation_reported_by'), flush=True)
        json.dump(out, open(path, 'w'), indent=1, ensure_ascii=False)


dirs = [d for d in sorted(glob.glob(os.path.join(ROOT, 'seeded', '*'))) if os.path.isdir(d) and os.path.basename(d).startswith(only) and match in os.path.basename(d)]
if '--pos' in sys.argv:
    dirs = [d for d in dirs if not os.path.basename(d).startswith('neg_')]
dirs.sort(key=lambda d: (not os.path.basename(d).startswith('neg_'), os.path.basename(d)))
with ThreadPoolExecutor(jobs) as ex:
    list(ex.map(one, dirs))
