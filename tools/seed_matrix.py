#!/usr/bin/env python3
"""Re-evaluates every seeded change under /verif/seeded: positive seeds against the quick check of their property,
negative controls (neg_*) against all twenty quick checks.  Writes seeded/RESULTS.json.  Usage: tools/seed_matrix.py [--only prefix]"""
import json, os, subprocess, sys, glob
ROOT = os.path.dirname(os.path.dirname(os.path.abspath(__file__)))
only = sys.argv[sys.argv.index('--only') + 1] if '--only' in sys.argv else ''
out = {}
path = os.path.join(ROOT, 'seeded', 'RESULTS.json')
if os.path.exists(path):
    out = json.load(open(path))
for d in sorted(glob.glob(os.path.join(ROOT, 'seeded', '*'))):
    k = os.path.basename(d)
    if not os.path.isdir(d) or not k.startswith(only):
        continue
    neg = k.startswith('neg_')
    meta = json.load(open(os.path.join(d, 'meta.json')))
    pid = meta['property'] if meta['property'] != 'all' else 'C01'
    cmd = ['python3', os.path.join(ROOT, 'tools', 'seed_eval.py'), d, pid] + (['--all'] if neg else [])
    r = subprocess.run(cmd, capture_output=True, text=True)
    try:
        res = json.loads(r.stdout)
    except Exception:
        out[k] = {'error': r.stdout[-500:] + r.stderr[-500:]}
        continue
    fired = sorted(p for p, c in res['checks'].items() if c['exit'] == 1)
    broken = sorted(p for p, c in res['checks'].items() if c['exit'] not in (0, 1))
    out[k] = {'tests_pass': res.get('tests_pass'), 'demo_with_change': res.get('demo_with_change'), 'demo_without_change': res.get('demo_without_change'),
              'checks_run': sorted(res['checks']), 'violation_reported_by': fired, 'machinery_fault_in': broken,
              'verdict': ('SILENT as required' if not fired and not broken else 'FALSE ALARM') if neg else ('DETECTED' if pid in fired else 'MISSED'),
              'first_kind': (res['checks'][fired[0]]['kinds'][:1] if fired else [])}
    print(k, out[k]['verdict'], fired, flush=True)
    json.dump(out, open(path, 'w'), indent=1, ensure_ascii=False)
