#!/usr/bin/env python3
"""Evaluate one seeded change: tools/seed_eval.py <seed_dir> <property> [--all] [--tier quick]
seed_dir contains patch.diff and demo.py.  Uses a scratch worktree outside /repo and /verif (removed afterwards)."""
import json, os, subprocess, sys, tempfile, shutil, time

ROOT = os.path.dirname(os.path.dirname(os.path.abspath(__file__)))      # the checks of THIS copy of /verif (a snapshot evaluates itself)


def sh(cmd, **kw):
    return subprocess.run(cmd, shell=True, capture_output=True, text=True, **kw)

def main():
    seed = os.path.abspath(sys.argv[1]); pid = sys.argv[2]
    allp = '--all' in sys.argv
    tier = sys.argv[sys.argv.index('--tier') + 1] if '--tier' in sys.argv else 'quick'
    wt = tempfile.mkdtemp(prefix='wt_eval_', dir='/tmp'); os.rmdir(wt)
    res = {'seed': seed, 'property': pid}
    try:
        r = sh('git -C /repo worktree add -f {} HEAD -q'.format(wt)); assert r.returncode == 0, r.stderr
        r = sh('git -C {} apply {}/patch.diff'.format(wt, seed))
        res['applies'] = r.returncode == 0
        if r.returncode != 0:
            res['apply_error'] = r.stderr[-500:]
            return res
        fast = '--fast' in sys.argv
        r = sh('true') if fast else sh('cd {} && PYTHONPATH={}/src /venv/bin/python -m pytest -q -p no:cacheprovider --timeout=900 2>&1 | tail -1'.format(wt, wt))
        res['tests'] = r.stdout.strip()
        res['tests_pass'] = '50 passed' in r.stdout
        if os.path.exists(seed + '/demo.py') and not fast:
            r = sh('cd {} && PYTHONPATH={}/src timeout 300 /venv/bin/python {}/demo.py'.format(wt, wt, seed)); res['demo_with_change'] = r.returncode
            r = sh('cd /repo && PYTHONPATH=/repo/src timeout 300 /venv/bin/python {}/demo.py'.format(seed)); res['demo_without_change'] = r.returncode
        props = [pid] if not allp else ['C%02d' % i for i in range(1, 21)]
        if '--props' in sys.argv:
            props = sys.argv[sys.argv.index('--props') + 1].split(',')
        res['checks'] = {}
        for p in props:
            t = time.time()
            r = sh('cd {} && VERIF_REPO={} VERIF_NOEVIDENCE=1 ./check {} --tier {}'.format(ROOT, wt, p, tier))
            lines = [l for l in r.stdout.split('\n') if l.startswith('  violated:')]
            res['checks'][p] = {'exit': r.returncode, 'secs': round(time.time() - t, 1), 'kinds': [l[12:160] for l in lines][:6]}
            if r.returncode == 2:
                res['checks'][p]['machinery'] = r.stdout[-800:]
        return res
    finally:
        sh('git -C /repo worktree remove --force {}'.format(wt)); shutil.rmtree(wt, ignore_errors=True); sh('git -C /repo worktree prune')
        print(json.dumps(res, indent=1, ensure_ascii=False))

if __name__ == '__main__':
    main()
