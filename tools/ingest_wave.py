#!/usr/bin/env python3
"""tools/ingest_wave.py <wave dir> <tag> [Cxx ...]: copies <wave dir>/Cxx/out/mK/{patch.diff,demo.py,notes.txt} to seeded/Cxx_<tag>mK/ and writes meta.json.
Verdicts come from tools/seed_matrix.py afterwards (tests, demo with / without the change, quick check)."""
import json, os, shutil, sys, glob
ROOT = os.path.dirname(os.path.dirname(os.path.abspath(__file__)))
wave, tag = sys.argv[1], sys.argv[2]
props = sys.argv[3:] or sorted(os.path.basename(p) for p in glob.glob(wave + '/C??'))
for pid in props:
    for m in sorted(glob.glob('{}/{}/out/m?'.format(wave, pid))):
        if not os.path.exists(m + '/patch.diff'):
            continue
        dst = '{}/seeded/{}_{}{}'.format(ROOT, pid, tag, os.path.basename(m))
        if os.path.exists(dst):
            continue
        os.makedirs(dst)
        for f in ('patch.diff', 'demo.py', 'notes.txt'):
            if os.path.exists(m + '/' + f):
                shutil.copy(m + '/' + f, dst + '/' + f)
        notes = open(dst + '/notes.txt', encoding='utf8').read() if os.path.exists(dst + '/notes.txt') else ''
        json.dump({'property': pid,
                   'origin': 'independent sub-agent (wave 7) given only the property text and its own scratch worktree of /repo HEAD; asked for two changes that need something specific to manifest',
                   'needs_to_manifest': ' '.join(notes.split())[:900],
                   'confirmed': {'how': 'tools/seed_eval.py: scratch worktree of /repo HEAD under /tmp, git apply, 50 tests, demo with/without the change, quick check with VERIF_REPO; verdict of the last run in seeded/RESULTS.json'}},
                  open(dst + '/meta.json', 'w'), indent=1, ensure_ascii=False)
        print('ingested', dst)
