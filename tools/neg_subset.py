#!/usr/bin/env python3
"""tools/neg_subset.py C10,C12,...  [--jobs N]: every negative control (seeded/neg_*) against the listed checks, restricted to the checks
that exercise a file the control touches (same scoping as seed_matrix --scoped).  Prints one line per control; exit 1 if any check fired."""
import glob, json, os, subprocess, sys
from concurrent.futures import ThreadPoolExecutor
ROOT = os.path.dirname(os.path.dirname(os.path.abspath(__file__)))
sys.argv_backup = list(sys.argv)
want = set(sys.argv[1].split(','))
jobs = int(sys.argv[sys.argv.index('--jobs') + 1]) if '--jobs' in sys.argv else 3
sys.argv = [sys.argv[0]]
sys.path.insert(0, os.path.join(ROOT, 'tools'))
src = open(os.path.join(ROOT, 'tools', 'seed_matrix.py')).read()
ns = {'os': os}
exec(src[src.index('AREAS = '):src.index('def one(d):')], ns)
bad = []

def one(d):
    props = sorted(want & set(ns['scope_of'](d)))
    if not props:
        return
    r = subprocess.run(['python3', os.path.join(ROOT, 'tools', 'seed_eval.py'), d, 'C01', '--fast', '--props', ','.join(props)], capture_output=True, text=True, env=dict(os.environ, VERIF_PROCS='5'))
    res = json.loads(r.stdout)
    fired = {p: c['kinds'][:1] for p, c in res['checks'].items() if c['exit'] != 0}
    print(os.path.basename(d), props, 'FIRED ' + json.dumps(fired, ensure_ascii=False)[:400] if fired else 'silent', flush=True)
    if fired:
        bad.append(d)

match = sys.argv_backup[sys.argv_backup.index('--match') + 1].split(',') if '--match' in sys.argv_backup else ['']
_one = one
one = lambda d: _one(d) if any(m in os.path.basename(d) for m in match) else None
with ThreadPoolExecutor(jobs) as ex:
    list(ex.map(one, sorted(glob.glob(os.path.join(ROOT, 'seeded', 'neg_*')), reverse='--reverse' in sys.argv_backup)))
sys.exit(1 if bad else 0)
